// C20 (a) - solvers are re-entrant: E4, every interleaving of T real threads with at most P preemptions.
// Bodies (engine/c20_bodies.h): each thread constructs a solver, init(), compute() on a tiny subject - with a private
// operator per thread, or sharing one const library product wrapper.  Scheduling points: before/after every operator
// application and the SPECTRA_VERIF_YIELD points inside the library (factorization loop, expand_basis, random_vec,
// restart loop).  Oracle: every thread's observable result (values, vectors, counts, status) is bit-identical to the
// sequential run of the same body.  Positive control: the same exploration on a deliberately racy harness-owned
// operator must produce at least two distinct outcomes, otherwise the machinery is reported broken (exit 3).
#include "engine/common.h"
#include "engine/sched.h"
#include "engine/c20_bodies.h"

using namespace vf;

struct Task
{
    int body, T, P;
};

int main(int argc, char** argv)
{
    Config cfg = parse_args(argc, argv, 200, 1200);
    Runner R("C20", cfg);
    const bool q = cfg.quick();
    auto B = c20::bodies();
    std::vector<Task> tasks;
    for (int b = 0; b < int(B.size()); b++)
    {
        tasks.push_back({b, 2, q ? 2 : 3});
        if (b < 4 || B[b].shared_operator) tasks.push_back({b, 3, q ? 1 : 2});
    }
    std::atomic<uint64_t> total_exec{0};
    // ---- positive control
    bool control_ok = false;
    {
        Eigen::MatrixXd M = c20::lap(6);
        c20::RacyOp op(M);
        std::set<uint64_t> outcomes;
        auto exec = [&](const std::vector<int>& prefix) {
            std::vector<uint64_t> res(2, 0);
            std::vector<std::function<void(int)>> bodies;
            for (int t = 0; t < 2; t++)
                bodies.push_back([&, t](int) {
                    Spectra::SymEigsSolver<c20::RacyOp> s(op, 2, 4);
                    Eigen::VectorXd v = Eigen::VectorXd::LinSpaced(6, 1.0, 2.0 + t);
                    s.init(v.data());
                    long r = s.compute(Spectra::SortRule::LargestAlge, 100, 1e-10);
                    res[t] = c20::observe(s, r);
                });
            Sched sc(2);
            auto tr = sc.run(bodies, prefix);
            Fnv f; f.pod(res[0]); f.pod(res[1]);
            outcomes.insert(f.h);
            return tr;
        };
        ExploreStats st;
        explore_subtree(exec, {}, 1, st, [&]() { return outcomes.size() >= 2 || st.executions > 20000; });
        control_ok = outcomes.size() >= 2;
        R.total.count("positive_control_executions", st.executions);
        R.total.count("positive_control_distinct_outcomes", outcomes.size());
    }
    R.run("schedules", tasks.size(), [&](uint64_t idx, Local& L) {
        const Task tk = tasks[idx];
        const c20::Body& body = B[tk.body];
        const std::string key = "C20|" + body.name + "|T=" + num(tk.T);
        // sequential reference: each slot alone, no scheduler
        std::vector<uint64_t> ref(tk.T);
        {
            c20::Shared sh;
            for (int t = 0; t < tk.T; t++) ref[t] = body.run(t, sh);
        }
        std::set<uint64_t> outcomes;
        uint64_t mism = 0;
        std::string first_bad;
        auto exec = [&](const std::vector<int>& prefix) {
            c20::Shared sh;
            std::vector<uint64_t> res(tk.T, 0);
            std::vector<std::function<void(int)>> fs;
            for (int t = 0; t < tk.T; t++) fs.push_back([&, t](int) { res[t] = body.run(t, sh); });
            Sched sc(tk.T);
            auto tr = sc.run(fs, prefix);
            L.traces++;
            L.transitions += tr.size();
            Fnv f;
            for (int t = 0; t < tk.T; t++) f.pod(res[t]);
            outcomes.insert(f.h);
            bool bad = sc.diverged || sc.body_threw;
            for (int t = 0; t < tk.T; t++) bad = bad || res[t] != ref[t];
            if (bad)
            {
                mism++;
                if (first_bad.empty())
                {
                    for (size_t i = 0; i < tr.size(); i++) first_bad += num(tr[i].chosen) + (i + 1 < tr.size() ? "," : "");
                    if (sc.diverged) first_bad = "REPLAY-DIVERGED " + first_bad;
                    if (sc.body_threw) first_bad = "BODY-THREW " + first_bad;
                }
            }
            return tr;
        };
        int completed = -1;
        ExploreStats last;
        for (int P = 0; P <= tk.P; P++)
        {
            ExploreStats st;
            explore_subtree(exec, {}, P, st, [&]() { return R.deadline_hit(); });
            if (st.truncated) { L.count("bound_truncated_by_deadline"); break; }
            completed = P;
            last = st;
            L.count("executions_P" + num(P), st.executions);
            if (mism) break;
        }
        L.evaluations += last.executions;
        L.count("completed_bound_sum", completed < 0 ? 0 : completed);
        L.count(std::string("completed_P") + num(completed) + "_tasks");
        L.count("scheduling_points_max", 0);
        L.ratio("points_per_execution/1000", (long double) last.max_points / 1000);
        for (uint64_t o : outcomes) { Fnv f; f.str(key); f.pod(o); L.states.insert(f.h); L.distinct.insert(f.h); }
        L.sample("{\"body\": " + jstr(key) + ", \"completed_preemption_bound\": " + num(completed) + ", \"executions\": " + num(last.executions) + ", \"scheduling_points_per_execution\": " + num(last.max_points) + "}", 4);
        if (mism)
            L.violate(key + "|interleaving-changes-result", "schedules#" + num(idx),
                      num(mism) + " schedule(s) with <= " + num(tk.P) + " preemptions give a result different from the sequential run; first schedule (choice list): " + first_bad.substr(0, 600));
    });
    int rc = R.finish("E4: all schedules of T threads with at most P preemptions (iterated P = 0,1,2[,3]) at operator applications and library yield points; states = distinct joint outcomes; evaluations = executions at the largest completed bound",
                      {"threads are serialised by a baton (one runnable at a time); memory-order effects and unsynchronised accesses between scheduling points are the business of the free-running ThreadSanitizer pass (c20_free)",
                       "the positive control (racy harness operator) must yield >= 2 distinct outcomes"});
    if (!control_ok)
    {
        fprintf(stderr, "VACUOUS: the positive control produced a single outcome - the scheduler does not interleave\n");
        return 3;
    }
    return rc;
}

// C08 - shifted QR helpers: orthogonal Q, exact similarity, structure preserved.
// Exhaustive over all small upper Hessenberg / symmetric tridiagonal matrices over integer alphabets,
// over graded alphabets spanning ~300 orders of magnitude, x shifts (fixed list + every exact real
// eigenvalue / conjugate pair of the input) x float/double/long double.  Oracle in long double.
#include "engine/common.h"
#include "engine/oracle.h"
#include <Eigen/Eigenvalues>
#include <Spectra/LinAlg/UpperHessenbergQR.h>
#include <Spectra/LinAlg/DoubleShiftQR.h>

using namespace vf;

template <typename T> static const char* tn();
template <> const char* tn<float>() { return "float"; }
template <> const char* tn<double>() { return "double"; }
template <> const char* tn<long double>() { return "longdouble"; }

// value identity (long double carries padding bytes, so memcmp is not usable)
template <typename T> static bool same_val(const T& a, const T& b) { return a == b || (a != a && b != b); }
template <typename M> static bool same_mat(const M& A, const M& B)
{
    if (A.rows() != B.rows() || A.cols() != B.cols()) return false;
    for (Eigen::Index j = 0; j < A.cols(); j++) for (Eigen::Index i = 0; i < A.rows(); i++) if (!same_val(A(i, j), B(i, j))) return false;
    return true;
}
struct Ctx
{
    Local& L;
    std::string key, replay;
    void check(const char* clause, LD err, LD bound)
    {
        LD r = (bound > 0) ? err / bound : ((err == 0) ? LD(0) : INFINITY);
        L.ratio(clause, r);
        if (!(err <= bound))
            L.violate(key + ":" + clause, replay, std::string(clause) + " err=" + gnum(err) + " bound=" + gnum(bound));
    }
    void fail(const std::string& clause, const std::string& d) { L.violate(key + ":" + clause, replay, d); }
};

template <typename T>
struct QR
{
    using Mat = Eigen::Matrix<T, Eigen::Dynamic, Eigen::Dynamic>;
    using Vec = Eigen::Matrix<T, Eigen::Dynamic, 1>;

    static Mat testmat(int n)
    {
        Mat Y(n, 2);
        for (int i = 0; i < n; i++)
        {
            Y(i, 0) = T(i + 1);
            Y(i, 1) = T((i % 2) ? -0.5 : 2.0) - T(i) * T(0.25);
        }
        return Y;
    }

    // common part for UpperHessenbergQR and TridiagQR (the latter via the base-class interface too)
    template <typename QRT>
    static void single(const Mat& H, T s, bool tridiag, Ctx c)
    {
        const int n = H.rows();
        const LD u = Unit<T>::u();
        c.L.evaluations++;
        try
        {
            QRT qr(H, s);
            Mat Q = Mat::Identity(n, n);
            qr.apply_YQ(Q);
            MatL Ql = toL(Q), Hl = toL(H);
            Mat R = qr.matrix_R();
            MatL Rl = toL(R);
            const LD scale = fro(Hl) + std::abs(LD(s));
            const LD b = 50 * n * u * scale, bq = 50 * n * u;
            if (!all_finite(Q) || !all_finite(R)) { c.fail("nonfinite", "Q or R contains NaN/Inf"); return; }
            c.check("QtQ-I", maxabs(Ql.transpose() * Ql - MatL::Identity(n, n)), bq);
            c.check("QR-(H-sI)", maxabs(Ql * Rl - (Hl - LD(s) * MatL::Identity(n, n))), b);
            LD low = 0;
            for (int j = 0; j < n; j++)
                for (int i = j + 1; i < n; i++) low = std::max(low, std::abs(Rl(i, j)));
            c.check("R-upper-triangular", low, 0);
            Mat D;
            qr.matrix_QtHQ(D);
            MatL Dl = toL(D), Ref = Ql.transpose() * Hl * Ql;
            if (D.rows() != n || D.cols() != n || !all_finite(D)) { c.fail("QtHQ-shape", "wrong size or non-finite"); return; }
            c.check("QtHQ", maxabs(Dl - Ref), b);
            LD below = 0, asym = 0, band = 0;
            for (int j = 0; j < n; j++)
                for (int i = 0; i < n; i++)
                {
                    if (i > j + 1) below = std::max(below, std::abs(Dl(i, j)));
                    if (tridiag && j > i + 1) band = std::max(band, std::abs(Dl(i, j)));
                    if (tridiag) asym = std::max(asym, std::abs(Dl(i, j) - Dl(j, i)));
                }
            c.check("QtHQ-hessenberg-shape", below, 0);
            if (tridiag)
            {
                c.check("QtHQ-tridiagonal-shape", band, 0);
                c.check("QtHQ-symmetric", asym, 0);
            }
            // apply_* against the explicit product
            Mat Y = testmat(n);
            MatL Yl = toL(Y);
            const LD by = 50 * n * u * fro(Yl);
            {
                Vec y = Y.col(0);
                qr.apply_QY(y);
                c.check("apply_QY(vec)", maxabs(toL(y) - Ql * Yl.col(0)), by);
                y = Y.col(1);
                qr.apply_QtY(y);
                c.check("apply_QtY(vec)", maxabs(toL(y) - Ql.transpose() * Yl.col(1)), by);
            }
            {
                Mat Z = Y;
                qr.apply_QY(Z);
                c.check("apply_QY(mat)", maxabs(toL(Z) - Ql * Yl), by);
                Z = Y;
                qr.apply_QtY(Z);
                c.check("apply_QtY(mat)", maxabs(toL(Z) - Ql.transpose() * Yl), by);
                Mat W = Y.transpose();
                qr.apply_YQ(W);
                c.check("apply_YQ(mat)", maxabs(toL(W) - Yl.transpose() * Ql), by);
                W = Y.transpose();
                qr.apply_YQt(W);
                c.check("apply_YQt(mat)", maxabs(toL(W) - Yl.transpose() * Ql.transpose()), by);
            }
            // the output argument of matrix_QtHQ may arrive in any state: already n x n and full of other numbers (a reused
            // work matrix), or of another size - the result must be the same matrix bit for bit
            for (int pre = 0; pre < 2; pre++)
            {
                Mat D2 = Mat::Constant(pre == 0 ? n : n + 1, pre == 0 ? n : n + 1, T(7.25));
                qr.matrix_QtHQ(D2);
                if (!same_mat(D2, D))
                    c.fail(pre == 0 ? "QtHQ-dest-prefilled" : "QtHQ-dest-other-size", "matrix_QtHQ(dest) depends on what dest held before the call");
            }
            // every matrix apply_* on a view into a larger matrix (outer stride != rows): same numbers as on a plain matrix,
            // nothing outside the view is touched
            {
                auto on_view = [&](const char* name, const Mat& In, const std::function<void(Eigen::Ref<Mat>)>& ap) {
                    Mat plain = In;
                    ap(plain);
                    const T sentinel = T(99.5);
                    Mat Big = Mat::Constant(In.rows() + 3, In.cols() + 2, sentinel);
                    Big.block(1, 1, In.rows(), In.cols()) = In;
                    ap(Big.block(1, 1, In.rows(), In.cols()));
                    bool same = true, outside = true;
                    for (int j = 0; j < Big.cols(); j++)
                        for (int i = 0; i < Big.rows(); i++)
                        {
                            const bool inside = i >= 1 && i <= In.rows() && j >= 1 && j <= In.cols();
                            if (inside) { if (!same_val(Big(i, j), plain(i - 1, j - 1))) same = false; }
                            else if (!(Big(i, j) == sentinel)) outside = false;
                        }
                    if (!same) c.fail(std::string(name) + "(view)", "result on a block of a larger matrix differs from the result on a plain matrix");
                    if (!outside) c.fail(std::string(name) + "(view)-outside", "entries outside the view were modified");
                };
                on_view("apply_QY", Y, [&](Eigen::Ref<Mat> M) { qr.apply_QY(M); });
                on_view("apply_QtY", Y, [&](Eigen::Ref<Mat> M) { qr.apply_QtY(M); });
                const Mat Yt = Y.transpose();
                on_view("apply_YQ", Yt, [&](Eigen::Ref<Mat> M) { qr.apply_YQ(M); });
                on_view("apply_YQt", Yt, [&](Eigen::Ref<Mat> M) { qr.apply_YQt(M); });
            }
            // vacuity: which rotation branches did this input reach
            const LD cutoff = 0.1L * std::pow(u, 0.25L);
            for (int i = 0; i + 1 < n; i++)
            {
                LD cc = std::abs(LD(qr.m_rot_cos[i])), ss = std::abs(LD(qr.m_rot_sin[i]));
                if (ss == 0) c.L.count(cc == 1 ? "rot_y0" : "rot_other");
                else if (cc == 0) c.L.count("rot_x0");
                else if (std::min(cc, ss) / std::max(cc, ss) < cutoff) c.L.count("rot_taylor_branch");
                else c.L.count("rot_sqrt_branch");
            }
        }
        catch (const std::exception& e)
        {
            c.fail("exception", e.what());
        }
    }

    static void dbl(const Mat& H, T s, T t, Ctx c)
    {
        const int n = H.rows();
        const LD u = Unit<T>::u();
        c.L.evaluations++;
        try
        {
            Spectra::DoubleShiftQR<T> qr(H, s, t);
            Mat Q = Mat::Identity(n, n);
            qr.apply_YQ(Q);
            if (!all_finite(Q)) { c.fail("nonfinite", "Q contains NaN/Inf"); return; }
            MatL Ql = toL(Q), Hl = toL(H);
            const LD scale = fro(Hl) + std::abs(LD(s)) + std::sqrt(std::abs(LD(t)));
            const LD b = 50 * n * u * scale, bq = 50 * n * u;
            c.check("ds:QtQ-I", maxabs(Ql.transpose() * Ql - MatL::Identity(n, n)), bq);
            Mat D(n, n);
            qr.matrix_QtHQ(D);
            if (D.rows() != n || D.cols() != n || !all_finite(D)) { c.fail("ds:QtHQ-shape", "wrong size or non-finite"); return; }
            MatL Dl = toL(D);
            c.check("ds:QtHQ", maxabs(Dl - Ql.transpose() * Hl * Ql), b);
            LD below = 0;
            for (int j = 0; j < n; j++)
                for (int i = j + 2; i < n; i++) below = std::max(below, std::abs(Dl(i, j)));
            c.check("ds:QtHQ-hessenberg-shape", below, b);
            // first column of Q parallel to (H^2 - sH + tI) e1
            VecL m = (Hl * Hl - LD(s) * Hl + LD(t) * MatL::Identity(n, n)).col(0);
            VecL q = Ql.col(0);
            const LD mn = m.norm();
            if (mn > 1e3L * n * u * scale * scale)
            {
                c.check("ds:first-column-parallel", (m - q.dot(m) * q).norm(), 50 * n * u * scale * scale);
                c.L.count("ds_parallel_nonvacuous");
            }
            Vec y = testmat(n).col(1);
            VecL yl = toL(y);
            qr.apply_QtY(y);
            c.check("ds:apply_QtY(vec)", maxabs(toL(y) - Ql.transpose() * yl), 50 * n * u * yl.norm());
            {
                // output argument already holding other numbers; apply_YQ on a view into a larger matrix
                Mat D2 = Mat::Constant(n, n, T(7.25));
                qr.matrix_QtHQ(D2);
                if (!same_mat(D2, D)) c.fail("ds:QtHQ-dest-prefilled", "matrix_QtHQ(dest) depends on what dest held before the call");
                const Mat In = testmat(n).transpose();
                Mat plain = In;
                qr.apply_YQ(plain);
                c.check("ds:apply_YQ(mat)", maxabs(toL(plain) - toL(In) * Ql), 50 * n * u * fro(toL(In)));
                Mat Big = Mat::Constant(In.rows() + 3, In.cols() + 2, T(99.5));
                Big.block(1, 1, In.rows(), In.cols()) = In;
                qr.apply_YQ(Big.block(1, 1, In.rows(), In.cols()));
                bool same = true, outside = true;
                for (int j = 0; j < Big.cols(); j++)
                    for (int i = 0; i < Big.rows(); i++)
                    {
                        const bool inside = i >= 1 && i <= In.rows() && j >= 1 && j <= In.cols();
                        if (inside) { if (!same_val(Big(i, j), plain(i - 1, j - 1))) same = false; }
                        else if (!(Big(i, j) == T(99.5))) outside = false;
                    }
                if (!same) c.fail("ds:apply_YQ(view)", "result on a block of a larger matrix differs from the result on a plain matrix");
                if (!outside) c.fail("ds:apply_YQ(view)-outside", "entries outside the view were modified");
            }
            for (int i = 0; i < n; i++) c.L.count(std::string("ds_reflector_nr") + char('0' + qr.m_ref_nr[i]));
        }
        catch (const std::exception& e)
        {
            c.fail("ds:exception", e.what());
        }
    }
};

// ------------------------------------------------------------------ alphabets
static const double D3[3] = {-1, 0, 1};
static const double D4[4] = {-1, 0, 1, 2};
static const double B2[2] = {0, 1};
template <typename T> struct Graded;
// v: single-shift classes (no squares of entries are formed); d: double-shift class, whose defining vector
// (H^2 - sH + tI)e1 contains squares of entries, so the letters keep squares representable and stay above the
// LAPACK-style absolute deflation threshold safmin*n/eps of the class (see DESIGN 8, false alarm FA-1)
template <> struct Graded<double> { static constexpr double d[6] = {0, 1, -1e-8, 1e8, 1e-150, -1e150}; static constexpr double v[6] = {0, 1, -1e-8, 1e8, 1e-160, -1e150}; static constexpr double w[11] = {0, 1, -1, 1e-8, -1e-8, 1e8, -1e8, 1e-160, -1e-160, 1e150, -1e150}; };
template <> struct Graded<long double> { static constexpr double d[6] = {0, 1, -1e-8, 1e8, 1e-150, -1e150}; static constexpr double v[6] = {0, 1, -1e-8, 1e8, 1e-160, -1e150}; static constexpr double w[11] = {0, 1, -1, 1e-8, -1e-8, 1e8, -1e8, 1e-160, -1e-160, 1e150, -1e150}; };
template <> struct Graded<float> { static constexpr double d[6] = {0, 1, -1e-4, 1e4, 1e-15, -1e15}; static constexpr double v[6] = {0, 1, -1e-4, 1e4, 1e-30, -1e18}; static constexpr double w[11] = {0, 1, -1, 1e-4, -1e-4, 1e4, -1e4, 1e-30, -1e-30, 1e18, -1e18}; };
constexpr double Graded<double>::d[6]; constexpr double Graded<long double>::d[6]; constexpr double Graded<float>::d[6];
constexpr double Graded<double>::v[6]; constexpr double Graded<double>::w[11];
constexpr double Graded<long double>::v[6]; constexpr double Graded<long double>::w[11];
constexpr double Graded<float>::v[6]; constexpr double Graded<float>::w[11];

static int hess_entries(int n) { return n * n - (n - 1) * (n - 2) / 2; }

template <typename T>
static Eigen::Matrix<T, -1, -1> hess_from(uint64_t idx, int n, const double* alpha, int na)
{
    Eigen::Matrix<T, -1, -1> H = Eigen::Matrix<T, -1, -1>::Zero(n, n);
    for (int j = 0; j < n; j++)
        for (int i = 0; i <= std::min(j + 1, n - 1); i++)
        {
            H(i, j) = T(alpha[idx % na]);
            idx /= na;
        }
    return H;
}
template <typename T>
static Eigen::Matrix<T, -1, -1> tri_from(uint64_t idx, int n, const double* alpha, int na)
{
    Eigen::Matrix<T, -1, -1> M = Eigen::Matrix<T, -1, -1>::Zero(n, n);
    for (int i = 0; i < n; i++)
    {
        M(i, i) = T(alpha[idx % na]);
        idx /= na;
    }
    for (int i = 0; i + 1 < n; i++)
    {
        M(i + 1, i) = M(i, i + 1) = T(alpha[idx % na]);
        idx /= na;
    }
    return M;
}

static const double FIXED_S[4] = {0, 1, -1, 0.5};
static const double FIXED_ST[5][2] = {{0, 0}, {0, 1}, {2, 2}, {-1, 1}, {1, 0.25}};

template <typename T>
static void hess_section(Runner& R, int n, const double* alpha, int na, const char* aname, bool eig_shifts)
{
    std::string sec = std::string("hessqr_") + tn<T>() + "_n" + num(n) + "_" + aname;
    R.run(sec, ipow(na, hess_entries(n)), [=](uint64_t idx, Local& L) {
        auto H = hess_from<T>(idx, n, alpha, na);
        std::string base = std::string("UpperHessenbergQR:") + tn<T>() + ":H=" + mat_str(H);
        std::string rp = sec + "#" + num(idx);
        for (double s : FIXED_S) QR<T>::template single<Spectra::UpperHessenbergQR<T>>(H, T(s), false, Ctx{L, base + ":s=" + num(s), rp});
        if (eig_shifts)
        {
            Eigen::EigenSolver<Eigen::MatrixXd> es(H.template cast<double>(), false);
            for (int k = 0; k < n; k++)
                if (es.eigenvalues()[k].imag() == 0)
                {
                    double s = es.eigenvalues()[k].real();
                    QR<T>::template single<Spectra::UpperHessenbergQR<T>>(H, T(s), false, Ctx{L, base + ":s=eig" + num(k) + "(" + num(s) + ")", rp});
                    L.count("eigenvalue_shifts");
                }
        }
        L.count("distinct_by_construction");
        if (idx == 4321 % ipow(na, hess_entries(n))) L.sample("{\"class\": \"UpperHessenbergQR<" + std::string(tn<T>()) + ">\", \"H\": \"" + mat_str(H) + "\", \"shifts\": \"0,1,-1,0.5,+real eigenvalues\"}", 12);
    });
}
template <typename T>
static void tri_section(Runner& R, int n, const double* alpha, int na, const char* aname, bool eig_shifts)
{
    std::string sec = std::string("triqr_") + tn<T>() + "_n" + num(n) + "_" + aname;
    R.run(sec, ipow(na, 2 * n - 1), [=](uint64_t idx, Local& L) {
        auto M = tri_from<T>(idx, n, alpha, na);
        std::string base = std::string("TridiagQR:") + tn<T>() + ":T=" + mat_str(M);
        std::string rp = sec + "#" + num(idx);
        for (double s : FIXED_S) QR<T>::template single<Spectra::TridiagQR<T>>(M, T(s), true, Ctx{L, base + ":s=" + num(s), rp});
        if (eig_shifts)
        {
            Eigen::SelfAdjointEigenSolver<Eigen::MatrixXd> es(M.template cast<double>(), Eigen::EigenvaluesOnly);
            for (int k = 0; k < n; k++)
            {
                double s = es.eigenvalues()[k];
                QR<T>::template single<Spectra::TridiagQR<T>>(M, T(s), true, Ctx{L, base + ":s=eig" + num(k) + "(" + num(s) + ")", rp});
                L.count("eigenvalue_shifts");
            }
        }
        L.count("distinct_by_construction");
        if (idx == 4321 % ipow(na, 2 * n - 1)) L.sample("{\"class\": \"TridiagQR<" + std::string(tn<T>()) + ">\", \"T\": \"" + mat_str(M) + "\"}", 12);
    });
}
template <typename T>
static void dbl_section(Runner& R, int n, const double* alpha, int na, const char* aname, bool eig_shifts)
{
    std::string sec = std::string("dsqr_") + tn<T>() + "_n" + num(n) + "_" + aname;
    R.run(sec, ipow(na, hess_entries(n)), [=](uint64_t idx, Local& L) {
        auto H = hess_from<T>(idx, n, alpha, na);
        std::string base = std::string("DoubleShiftQR:") + tn<T>() + ":H=" + mat_str(H);
        std::string rp = sec + "#" + num(idx);
        for (auto& st : FIXED_ST) QR<T>::dbl(H, T(st[0]), T(st[1]), Ctx{L, base + ":s=" + num(st[0]) + ",t=" + num(st[1]), rp});
        if (eig_shifts)
        {
            Eigen::EigenSolver<Eigen::MatrixXd> es(H.template cast<double>(), false);
            for (int k = 0; k < n; k++)
                if (es.eigenvalues()[k].imag() > 0)
                {
                    std::complex<double> mu = es.eigenvalues()[k];
                    QR<T>::dbl(H, T(2 * mu.real()), T(std::norm(mu)), Ctx{L, base + ":s,t=eigpair" + num(k), rp});
                    L.count("conjugate_pair_shifts");
                }
        }
        L.count("distinct_by_construction");
        if (idx == 4321 % ipow(na, hess_entries(n))) L.sample("{\"class\": \"DoubleShiftQR<" + std::string(tn<T>()) + ">\", \"H\": \"" + mat_str(H) + "\"}", 12);
    });
}

// n = 6: every pattern of {ordinary, exact zero, negligible} sub-diagonal entries on a fixed dense upper triangle
template <typename T>
static void split_section(Runner& R)
{
    std::string sec = std::string("blocksplit_") + tn<T>() + "_n6";
    R.run(sec, 243 * 3, [=](uint64_t idx, Local& L) {
        const int n = 6;
        int variant = idx / 243;
        uint64_t p = idx % 243;
        Eigen::Matrix<T, -1, -1> H = Eigen::Matrix<T, -1, -1>::Zero(n, n);
        for (int j = 0; j < n; j++)
            for (int i = 0; i <= j; i++) H(i, j) = T(((i * 7 + j * 3) % 5) - 2 + (i == j ? 0.5 : 0.0)) * (variant == 2 ? T(1e-3) : T(1));
        for (int i = 0; i + 1 < n; i++)
        {
            int d = p % 3;
            p /= 3;
            H(i + 1, i) = d == 0 ? T(1 + i) : (d == 1 ? T(0) : T(variant == 1 ? -1e-20 : 1e-25));
        }
        std::string rp = sec + "#" + num(idx);
        std::string base = std::string("blocksplit:") + tn<T>() + ":H=" + mat_str(H);
        for (auto& st : FIXED_ST) QR<T>::dbl(H, T(st[0]), T(st[1]), Ctx{L, "DoubleShiftQR:" + base + ":s=" + num(st[0]) + ",t=" + num(st[1]), rp});
        for (double s : FIXED_S) QR<T>::template single<Spectra::UpperHessenbergQR<T>>(H, T(s), false, Ctx{L, "UpperHessenbergQR:" + base + ":s=" + num(s), rp});
        L.count("distinct_by_construction");
    });
}

int main(int argc, char** argv)
{
    Config cfg = parse_args(argc, argv, 240, 1500);
    Runner R("C08", cfg);
    const bool th = cfg.thorough();

    // single-shift Hessenberg QR
    for (int n = 2; n <= 3; n++) hess_section<double>(R, n, D3, 3, "D3", true);
    hess_section<double>(R, 4, D3, 3, "D3", th);
    hess_section<float>(R, 2, D3, 3, "D3", true);
    hess_section<float>(R, 3, D3, 3, "D3", true);
    hess_section<long double>(R, 2, D3, 3, "D3", true);
    hess_section<long double>(R, 3, D3, 3, "D3", true);
    hess_section<double>(R, 2, Graded<double>::w, 11, "graded11", false);
    hess_section<float>(R, 2, Graded<float>::w, 11, "graded11", false);
    hess_section<long double>(R, 2, Graded<long double>::w, 11, "graded11", false);
    // tridiagonal QR
    for (int n = 2; n <= 5; n++) tri_section<double>(R, n, D4, 4, "D4", n <= 4 || th);
    for (int n = 2; n <= 4; n++)
    {
        tri_section<float>(R, n, D4, 4, "D4", true);
        tri_section<long double>(R, n, D4, 4, "D4", true);
    }
    for (int n = 2; n <= 4; n++) tri_section<double>(R, n, Graded<double>::v, 6, "graded6", false);
    tri_section<float>(R, 3, Graded<float>::v, 6, "graded6", false);
    tri_section<long double>(R, 3, Graded<long double>::v, 6, "graded6", false);
    // double-shift QR
    dbl_section<double>(R, 3, D3, 3, "D3", true);
    dbl_section<float>(R, 3, D3, 3, "D3", true);
    dbl_section<long double>(R, 3, D3, 3, "D3", true);
    dbl_section<double>(R, 4, D3, 3, "D3", th);
    dbl_section<double>(R, 3, Graded<double>::d, 6, "graded6", false);
    dbl_section<float>(R, 3, Graded<float>::d, 6, "graded6", false);
    dbl_section<long double>(R, 3, Graded<long double>::d, 6, "graded6", false);
    split_section<double>(R);
    split_section<float>(R);
    split_section<long double>(R);
    if (th)
    {
        hess_section<float>(R, 4, D3, 3, "D3", false);
        hess_section<long double>(R, 4, D3, 3, "D3", false);
        hess_section<double>(R, 3, Graded<double>::v, 6, "graded6", false);
        hess_section<float>(R, 3, Graded<float>::v, 6, "graded6", false);
        tri_section<double>(R, 6, D4, 4, "D4", false);
        tri_section<float>(R, 5, D4, 4, "D4", false);
        tri_section<long double>(R, 5, D4, 4, "D4", false);
        dbl_section<float>(R, 4, D3, 3, "D3", false);
        dbl_section<long double>(R, 4, D3, 3, "D3", false);
        dbl_section<double>(R, 5, B2, 2, "B2", true);
    }

    return R.finish(
        "every upper Hessenberg matrix over {-1,0,1} (n=2..4), every symmetric tridiagonal over {-1,0,1,2} (n=2..5, thorough 6), graded alphabets spanning >300 orders of magnitude, "
        "every sub-diagonal zero/negligible pattern at n=6; shifts {0,1,-1,0.5} plus every real eigenvalue (single shift) / conjugate eigenvalue pair (double shift) of the input; "
        "float, double, long double. Each (matrix) index is a distinct input",
        {"long double arithmetic and Eigen's dense EigenSolver (used only to pick exact-eigenvalue shifts) are trusted", "rounding allowance 50*n*u*(||H||_F+|s|(+sqrt|t|)) fixed a priori"});
}

// C04 - when a solver reports Successful, the k eigenvalues it returns are the k the selection rule names, of the
// spectrum the rule is documented to act on (A's own spectrum; nu = 1/(lambda-sigma), lambda/(lambda-sigma),
// (lambda+sigma)/(lambda-sigma) for shift-and-invert, buckling, Cayley; the largest singular values; the smallest
// eigenvalues for LOBPCG).  E2: every solver family x prescribed simple spectra (n = 8, 10; five real catalogues and, for
// the general solvers, every placement of 0..3 conjugate pairs) x every rule the family supports x every (nev, ncv) with
// ncv >= 2 nev + 1 x default start vector.  Cases in which the k-th and (k+1)-th key are not separated by 0.5 % of the
// key spread (e.g. nev cutting a conjugate pair) fail the premise and are counted, not checked.
// Oracle: Successful  =>  the multiset of returned eigenvalues equals the brute-force top-k by the rule (1e-6 * spread).
#include "engine/common.h"
#include "engine/oracle.h"
#include "engine/alphabet.h"
#include <Eigen/Sparse>
#include <Eigen/Eigenvalues>
#include <Spectra/SymEigsSolver.h>
#include <Spectra/HermEigsSolver.h>
#include <Spectra/SymEigsShiftSolver.h>
#include <Spectra/GenEigsSolver.h>
#include <Spectra/GenEigsRealShiftSolver.h>
#include <Spectra/GenEigsComplexShiftSolver.h>
#include <Spectra/SymGEigsSolver.h>
#include <Spectra/SymGEigsShiftSolver.h>
#include <Spectra/DavidsonSymEigsSolver.h>
#include <Spectra/contrib/PartialSVDSolver.h>
#include <Spectra/contrib/LOBPCGSolver.h>
#include <Spectra/MatOp/DenseSymMatProd.h>
#include <Spectra/MatOp/DenseHermMatProd.h>
#include <Spectra/MatOp/DenseGenMatProd.h>
#include <Spectra/MatOp/DenseSymShiftSolve.h>
#include <Spectra/MatOp/DenseGenRealShiftSolve.h>
#include <Spectra/MatOp/DenseGenComplexShiftSolve.h>
#include <Spectra/MatOp/DenseCholesky.h>
#include <Spectra/MatOp/SparseSymMatProd.h>
#include <Spectra/MatOp/SparseRegularInverse.h>
#include <Spectra/MatOp/SymShiftInvert.h>
#include <algorithm>

using namespace vf;
using namespace Spectra;

static const SortRule ALLR[9] = {SortRule::LargestMagn, SortRule::LargestReal, SortRule::LargestImag, SortRule::LargestAlge, SortRule::SmallestMagn,
                                 SortRule::SmallestReal, SortRule::SmallestImag, SortRule::SmallestAlge, SortRule::BothEnds};
static const char* RN[9] = {"LM", "LR", "LI", "LA", "SM", "SR", "SI", "SA", "BE"};
static int ridx(SortRule r) { for (int i = 0; i < 9; i++) if (ALLR[i] == r) return i; return -1; }

static LD keyf(SortRule r, CL v)
{
    switch (r)
    {
        case SortRule::LargestMagn: return -std::abs(v);
        case SortRule::SmallestMagn: return std::abs(v);
        case SortRule::LargestReal: case SortRule::LargestAlge: return -v.real();
        case SortRule::SmallestReal: case SortRule::SmallestAlge: return v.real();
        case SortRule::LargestImag: return -std::abs(v.imag());
        case SortRule::SmallestImag: return std::abs(v.imag());
        default: return 0;
    }
}
// brute-force selection: indices of the k wanted values among `keyvals` (the spectrum the rule acts on); false if the premise fails
static bool wanted(SortRule r, const std::vector<CL>& keyvals, int k, std::vector<int>& idx)
{
    const int n = keyvals.size();
    std::vector<int> ord(n);
    for (int i = 0; i < n; i++) ord[i] = i;
    if (r == SortRule::BothEnds)
    {
        std::sort(ord.begin(), ord.end(), [&](int a, int b) { return keyvals[a].real() > keyvals[b].real(); });
        const LD spread = keyvals[ord[0]].real() - keyvals[ord[n - 1]].real();
        const int hi = (k + 1) / 2, lo = k / 2;
        idx.clear();
        for (int i = 0; i < hi; i++) idx.push_back(ord[i]);
        for (int i = 0; i < lo; i++) idx.push_back(ord[n - 1 - i]);
        if (hi + lo > n) return false;
        // gaps at both cut points
        if (hi < n - lo && keyvals[ord[hi - 1]].real() - keyvals[ord[hi]].real() < 0.005L * spread) return false;
        if (lo > 0 && keyvals[ord[n - lo]].real() - keyvals[ord[n - lo - 1]].real() > -0.005L * spread) return false;
        for (int i = 0; i + 1 < n; i++) if (keyvals[ord[i]].real() - keyvals[ord[i + 1]].real() < 0.005L * spread) return false;
        return true;
    }
    std::sort(ord.begin(), ord.end(), [&](int a, int b) { return keyf(r, keyvals[a]) < keyf(r, keyvals[b]); });
    const LD spread = keyf(r, keyvals[ord[n - 1]]) - keyf(r, keyvals[ord[0]]);
    if (!(spread > 0)) return false;
    if (k >= n) return false;
    if (keyf(r, keyvals[ord[k]]) - keyf(r, keyvals[ord[k - 1]]) < 0.005L * spread) return false;
    idx.assign(ord.begin(), ord.begin() + k);
    return true;
}

struct Judge
{
    Local& L;
    std::string replay;
    // lam: spectrum in which results are reported; keyvals: spectrum the rule acts on (same index set)
    void operator()(const std::string& key, SortRule rule, int k, const std::vector<CL>& lam, const std::vector<CL>& keyvals, bool successful, const std::vector<CL>& got)
    {
        L.evaluations++;
        std::vector<int> idx;
        if (!wanted(rule, keyvals, k, idx)) { L.count("skipped_premise"); return; }
        if (!successful) { L.count("premise_ok_not_converged"); return; }
        L.count("checked_successful");
        L.sample("{\"case\": " + jstr(key) + ", \"k\": " + num(k) + "}", 4);
        Fnv f; f.str(key);
        L.distinct.insert(f.h);
        LD spread = 0;
        for (auto& a : lam) for (auto& b : lam) spread = std::max(spread, std::abs(a - b));
        if (int(got.size()) != k) { L.violate(key + "|count", replay, "Successful but " + num(long(got.size())) + " values returned for k=" + num(k)); return; }
        // multiset match
        std::vector<bool> used(k, false);
        for (int w : idx)
        {
            int best = -1;
            LD bd = std::numeric_limits<LD>::infinity();
            for (int j = 0; j < k; j++)
                if (!used[j] && std::abs(got[j] - lam[w]) < bd) { bd = std::abs(got[j] - lam[w]); best = j; }
            if (best < 0 || !(bd <= 1e-6L * spread))
            {
                std::string gs;
                for (auto& g : got) gs += "(" + std::string(gnum(g.real())) + "," + gnum(g.imag()) + ") ";
                L.violate(key + "|selection", replay, std::string("rule ") + RN[ridx(rule)] + " k=" + num(k) + ": wanted eigenvalue (" + gnum(lam[w].real()) + "," + gnum(lam[w].imag()) + ") is not among the returned values " + gs);
                return;
            }
            used[best] = true;
        }
    }
};

static std::vector<CL> to_cl(const Eigen::VectorXd& v) { std::vector<CL> r; for (int i = 0; i < v.size(); i++) r.push_back(CL(v[i], 0)); return r; }
static std::vector<CL> to_cl(const Eigen::VectorXcd& v) { std::vector<CL> r; for (int i = 0; i < v.size(); i++) r.push_back(CL(v[i].real(), v[i].imag())); return r; }

static VecL real_spectrum(int n, int cat, std::string& nm)
{
    VecL d(n);
    for (int i = 0; i < n; i++)
    {
        switch (cat)
        {
            case 0: d[i] = i + 1; nm = "pos"; break;
            case 1: d[i] = -(i + 1); nm = "neg"; break;
            case 2: d[i] = LD(i) - LD(n) / 2 + LD(0.3); nm = "shifted"; break;
            case 3: d[i] = std::pow(LD(1.5), i); nm = "geometric"; break;
            default: d[i] = ((i % 2) ? -1 : 1) * LD(i + 1); nm = "alternating"; break;
        }
    }
    return d;
}

int main(int argc, char** argv)
{
    Config cfg = parse_args(argc, argv, 240, 1200);
    Runner R("C04", cfg);
    (void) cfg.quick();  // both tiers enumerate the same (complete) catalogue
    const SortRule SYMR[5] = {SortRule::LargestMagn, SortRule::LargestAlge, SortRule::SmallestMagn, SortRule::SmallestAlge, SortRule::BothEnds};
    const SortRule GENR[6] = {SortRule::LargestMagn, SortRule::LargestReal, SortRule::LargestImag, SortRule::SmallestMagn, SortRule::SmallestReal, SortRule::SmallestImag};
    const SortRule DAVR[4] = {SortRule::LargestAlge, SortRule::SmallestAlge, SortRule::LargestMagn, SortRule::SmallestMagn};

    // ---------------- symmetric / Hermitian / generalized / Davidson / SVD / LOBPCG on real spectra
    struct SymCase { int n, cat, qi; };
    std::vector<SymCase> sc;
    for (int n : {8, 10})
        for (int cat = 0; cat < 5; cat++)
            for (int qi : {2, 3}) sc.push_back({n, cat, qi});
    R.run("symmetric", sc.size(), [&](uint64_t idx, Local& L) {
        const SymCase c = sc[idx];
        const int n = c.n;
        std::string nm, qn;
        const VecL d = real_spectrum(n, c.cat, nm);
        const MatL Q = qcat_get(n, c.qi, &qn);
        MatL A0 = Q * d.asDiagonal() * Q.transpose();
        const MatL A = (A0 + A0.transpose()) / 2;
        const std::string desc = "n" + num(n) + ":" + nm + ":" + qn, rp = "symmetric#" + num(idx);
        Judge J{L, rp};
        std::vector<CL> lam;
        for (int i = 0; i < n; i++) lam.push_back(CL(d[i], 0));
        Eigen::MatrixXd Ad = A.cast<double>();
        const LD spread = d.maxCoeff() - d.minCoeff();
        for (int nev = 1; 2 * nev + 1 <= n; nev++)
            for (int ncv = 2 * nev + 1; ncv <= n; ncv += 1)
            {
                const std::string cs = "|" + desc + "|nev=" + num(nev) + ",ncv=" + num(ncv);
                for (SortRule r : SYMR)
                {
                    {
                        DenseSymMatProd<double> op(Ad);
                        SymEigsSolver<DenseSymMatProd<double>> s(op, nev, ncv);
                        s.init();
                        s.compute(r, 1000, 1e-10);
                        J("SymEigsSolver" + cs + "|" + RN[ridx(r)], r, nev, lam, lam, s.info() == CompInfo::Successful, to_cl(s.eigenvalues()));
                    }
                    {
                        // Hermitian: U A U^H with a diagonal phase matrix
                        Eigen::MatrixXcd Hm = Ad.cast<std::complex<double>>();
                        for (int i = 0; i < n; i++)
                            for (int j = 0; j < n; j++) Hm(i, j) *= std::polar(1.0, 0.37 * (i - j));
                        DenseHermMatProd<std::complex<double>> op(Hm);
                        HermEigsSolver<DenseHermMatProd<std::complex<double>>> s(op, nev, ncv);
                        s.init();
                        s.compute(r, 1000, 1e-10);
                        J("HermEigsSolver" + cs + "|" + RN[ridx(r)], r, nev, lam, lam, s.info() == CompInfo::Successful, to_cl(s.eigenvalues()));
                    }
                    for (LD sg : {LD(d[n / 2] + 0.27L), LD(d.minCoeff() - 0.4L * spread)})
                    {
                        std::vector<CL> nu;
                        for (int i = 0; i < n; i++) nu.push_back(CL(1 / (d[i] - sg), 0));
                        DenseSymShiftSolve<double> op(Ad);
                        SymEigsShiftSolver<DenseSymShiftSolve<double>> s(op, nev, ncv, double(sg));
                        s.init();
                        s.compute(r, 1000, 1e-10);
                        J("SymEigsShiftSolver" + cs + ",sigma=" + std::string(gnum(sg)) + "|" + RN[ridx(r)], r, nev, lam, nu, s.info() == CompInfo::Successful, to_cl(s.eigenvalues()));
                    }
                    // generalized: B = diag(1..n)/n scaled; pencil spectrum from the dense reference
                    {
                        MatL B = MatL::Zero(n, n);
                        for (int i = 0; i < n; i++) { B(i, i) = 2 + LD(i % 3); if (i + 1 < n) B(i, i + 1) = B(i + 1, i) = LD(0.5); }
                        Eigen::GeneralizedSelfAdjointEigenSolver<MatL> ges(A, B);
                        std::vector<CL> gl;
                        for (int i = 0; i < n; i++) gl.push_back(CL(ges.eigenvalues()[i], 0));
                        Eigen::MatrixXd Bd = B.cast<double>();
                        {
                            DenseSymMatProd<double> op(Ad);
                            DenseCholesky<double> bop(Bd);
                            SymGEigsSolver<DenseSymMatProd<double>, DenseCholesky<double>, GEigsMode::Cholesky> s(op, bop, nev, ncv);
                            s.init();
                            s.compute(r, 1000, 1e-10);
                            J("SymGEigsSolver<Cholesky>" + cs + "|" + RN[ridx(r)], r, nev, gl, gl, s.info() == CompInfo::Successful, to_cl(s.eigenvalues()));
                        }
                        {
                            Eigen::SparseMatrix<double> As = Ad.sparseView(), Bs = Bd.sparseView();
                            SparseSymMatProd<double> op(As);
                            SparseRegularInverse<double> bop(Bs);
                            SymGEigsSolver<SparseSymMatProd<double>, SparseRegularInverse<double>, GEigsMode::RegularInverse> s(op, bop, nev, ncv);
                            s.init();
                            s.compute(r, 1000, 1e-10);
                            J("SymGEigsSolver<RegularInverse>" + cs + "|" + RN[ridx(r)], r, nev, gl, gl, s.info() == CompInfo::Successful, to_cl(s.eigenvalues()));
                        }
                        using SI = SymShiftInvert<double, Eigen::Dense, Eigen::Dense>;
                        const LD sg = ges.eigenvalues()[n / 2] + LD(0.013) * (ges.eigenvalues()[n - 1] - ges.eigenvalues()[0]);
                        LD md = std::numeric_limits<LD>::infinity();
                        for (int i = 0; i < n; i++) md = std::min(md, std::abs(ges.eigenvalues()[i] - sg));
                        if (md > 1e-3L * (ges.eigenvalues()[n - 1] - ges.eigenvalues()[0]) && std::abs(sg) > 1e-3L)
                        {
                            std::vector<CL> nu_si, nu_ca;
                            for (int i = 0; i < n; i++)
                            {
                                const LD l = ges.eigenvalues()[i];
                                nu_si.push_back(CL(1 / (l - sg), 0));
                                nu_ca.push_back(CL((l + sg) / (l - sg), 0));
                            }
                            {
                                SI op(Ad, Bd);
                                DenseSymMatProd<double> bop(Bd);
                                SymGEigsShiftSolver<SI, DenseSymMatProd<double>, GEigsMode::ShiftInvert> s(op, bop, nev, ncv, double(sg));
                                s.init();
                                s.compute(r, 1000, 1e-10);
                                J("SymGEigsShiftSolver<ShiftInvert>" + cs + "|" + RN[ridx(r)], r, nev, gl, nu_si, s.info() == CompInfo::Successful, to_cl(s.eigenvalues()));
                            }
                            {
                                SI op(Ad, Bd);
                                DenseSymMatProd<double> bop(Bd);
                                SymGEigsShiftSolver<SI, DenseSymMatProd<double>, GEigsMode::Cayley> s(op, bop, nev, ncv, double(sg));
                                s.init();
                                s.compute(r, 1000, 1e-10);
                                J("SymGEigsShiftSolver<Cayley>" + cs + "|" + RN[ridx(r)], r, nev, gl, nu_ca, s.info() == CompInfo::Successful, to_cl(s.eigenvalues()));
                            }
                        }
                        // buckling: K = B (positive definite), K_G = A (nonsingular here): K x = lambda K_G x
                        if (std::abs(d.cwiseAbs().minCoeff()) > 1e-3L)
                        {
                            Eigen::EigenSolver<MatL> bes(MatL(A.inverse() * B));   // lambda = eig(K_G^{-1} K)
                            std::vector<CL> bl, bnu;
                            bool real_ok = true;
                            const LD bsg = LD(0.61);
                            for (int i = 0; i < n; i++)
                            {
                                const CL l = bes.eigenvalues()[i];
                                if (std::abs(l.imag()) > 1e-9L * std::abs(l)) real_ok = false;
                                bl.push_back(CL(l.real(), 0));
                                bnu.push_back(CL(l.real() / (l.real() - bsg), 0));
                                if (std::abs(l.real() - bsg) < 1e-2L) real_ok = false;
                            }
                            if (real_ok)
                            {
                                SI op(Bd, Ad);
                                DenseSymMatProd<double> kop(Bd);
                                SymGEigsShiftSolver<SI, DenseSymMatProd<double>, GEigsMode::Buckling> s(op, kop, nev, ncv, double(bsg));
                                s.init();
                                s.compute(r, 1000, 1e-10);
                                J("SymGEigsShiftSolver<Buckling>" + cs + "|" + RN[ridx(r)], r, nev, bl, bnu, s.info() == CompInfo::Successful, to_cl(s.eigenvalues()));
                            }
                        }
                    }
                }
                // Davidson (diagonally dominant version of the same spectrum family), 4 rules
                for (SortRule r : DAVR)
                {
                    Eigen::MatrixXd D = Eigen::MatrixXd::Zero(n, n);
                    for (int i = 0; i < n; i++) { D(i, i) = double(d[i]) * 3; if (i + 1 < n) D(i, i + 1) = D(i + 1, i) = 0.1; }
                    Eigen::SelfAdjointEigenSolver<Eigen::MatrixXd> es(D);
                    std::vector<CL> dl = to_cl(Eigen::VectorXd(es.eigenvalues()));
                    DenseSymMatProd<double> op(D);
                    DavidsonSymEigsSolver<DenseSymMatProd<double>> s(op, nev);
                    s.compute(r, 200, 1e-9);
                    J("DavidsonSymEigsSolver|n" + num(n) + ":" + nm + "|nev=" + num(nev) + "|" + RN[ridx(r)], r, nev, dl, dl, s.info() == CompInfo::Successful, to_cl(s.eigenvalues()));
                    if (ncv != 2 * nev + 1) break;
                }
                // partial SVD: the largest singular values (|d_i| are the singular values of the symmetric A)
                {
                    std::vector<CL> sv;
                    for (int i = 0; i < n; i++) sv.push_back(CL(std::abs(d[i]), 0));
                    Eigen::MatrixXd W = Eigen::MatrixXd::Zero(n + 2, n);
                    W.topRows(n) = Ad;
                    PartialSVDSolver<Eigen::MatrixXd> s(W, nev, ncv);
                    const int nc = s.compute(1000, 1e-10);
                    J("PartialSVDSolver" + cs, SortRule::LargestAlge, nev, sv, sv, nc == nev, to_cl(Eigen::VectorXd(s.singular_values())));
                }
            }
        // LOBPCG: the k smallest eigenvalues of a separated-low-end version (shift the k smallest down)
        for (int k = 1; 5 * k < n + 5 && k <= 2; k++)
        {
            MatL Al = A;
            Eigen::SelfAdjointEigenSolver<MatL> es(A);
            for (int i = 0; i < k; i++) Al -= LD(40) * es.eigenvectors().col(i) * es.eigenvectors().col(i).transpose();
            Eigen::SelfAdjointEigenSolver<MatL> es2(Al);
            std::vector<CL> ll;
            for (int i = 0; i < n; i++) ll.push_back(CL(es2.eigenvalues()[i], 0));
            Eigen::SparseMatrix<double> As = Eigen::MatrixXd(Al.cast<double>()).sparseView();
            Eigen::MatrixXd X0 = Eigen::MatrixXd::Zero(n, k);
            for (int j = 0; j < k; j++) for (int i = 0; i < n; i++) X0(i, j) = 1.0 / (1 + i + 2 * j) + (i == j ? 1 : 0);
            Eigen::SparseMatrix<double> Xs = X0.sparseView();
            LOBPCGSolver<double> s(As, Xs);
            s.compute(50, 1e-8);
            J("LOBPCGSolver|" + desc + "|k=" + num(k), SortRule::SmallestAlge, k, ll, ll, s.info() == Eigen::Success, to_cl(Eigen::VectorXd(s.eigenvalues())));
        }
    });

    // ---------------- general solvers: every placement of 0..3 conjugate pairs among n slots
    struct GenCase { int n, npair, st; uint64_t placement; };
    std::vector<GenCase> gc;
    for (int n : {8, 10})
        for (int np = 0; np <= 3; np++)
            for (int st = 0; st < 2; st++)
                for (uint64_t pl = 0; pl < (np == 0 ? 1u : 6u); pl++) gc.push_back({n, np, st, pl});
    R.run("general", gc.size(), [&](uint64_t idx, Local& L) {
        const GenCase c = gc[idx];
        const int n = c.n;
        // spectrum: real values 1.0, 2.1, 3.3, ... (distinct keys); pairs re +- im i with distinct re, im, modulus
        std::vector<CL> lam;
        MatL D = MatL::Zero(n, n);
        int i = 0;
        // placement decides which slots (in increasing order of real part) carry the pairs
        std::vector<int> pairslot;
        for (int p = 0; p < c.npair; p++) pairslot.push_back(int((c.placement * 3 + p * (2 + c.placement)) % (n / 2)) * 2);
        std::sort(pairslot.begin(), pairslot.end());
        pairslot.erase(std::unique(pairslot.begin(), pairslot.end()), pairslot.end());
        while (i < n)
        {
            const bool pair = std::find(pairslot.begin(), pairslot.end(), i) != pairslot.end() && i + 1 < n;
            if (pair)
            {
                const LD re = LD(0.7) + LD(1.13) * i, im = LD(0.9) + LD(0.37) * i;
                D(i, i) = re; D(i + 1, i + 1) = re; D(i, i + 1) = im; D(i + 1, i) = -im;
                lam.push_back(CL(re, im));
                lam.push_back(CL(re, -im));
                i += 2;
            }
            else
            {
                const LD re = (i % 3 == 1 ? -1 : 1) * (LD(1) + LD(1.07) * i);
                D(i, i) = re;
                lam.push_back(CL(re, 0));
                i++;
            }
        }
        MatL Sm = MatL::Identity(n, n);
        if (c.st == 1) for (int k = 0; k + 1 < n; k++) Sm(k + 1, k) = LD(0.5);
        const MatL A = Sm * D * Sm.inverse();
        Eigen::MatrixXd Ad = A.cast<double>();
        const std::string desc = "n" + num(n) + ":pairs" + num(long(pairslot.size())) + ":pl" + num(c.placement) + ":s" + num(c.st), rp = "general#" + num(idx);
        Judge J{L, rp};
        LD spread = 0;
        for (auto& a : lam) for (auto& b : lam) spread = std::max(spread, std::abs(a - b));
        for (int nev = 1; 2 * nev + 1 <= n; nev++)
            for (int ncv = std::max(2 * nev + 1, nev + 2); ncv <= n; ncv += 1)
            {
                const std::string cs = "|" + desc + "|nev=" + num(nev) + ",ncv=" + num(ncv);
                for (SortRule r : GENR)
                {
                    {
                        DenseGenMatProd<double> op(Ad);
                        GenEigsSolver<DenseGenMatProd<double>> s(op, nev, ncv);
                        s.init();
                        s.compute(r, 1000, 1e-10);
                        J("GenEigsSolver" + cs + "|" + RN[ridx(r)], r, nev, lam, lam, s.info() == CompInfo::Successful, to_cl(Eigen::VectorXcd(s.eigenvalues())));
                    }
                    {
                        const LD sg = LD(2.63);
                        std::vector<CL> nu;
                        for (auto& l : lam) nu.push_back(CL(1) / (l - CL(sg)));
                        DenseGenRealShiftSolve<double> op(Ad);
                        GenEigsRealShiftSolver<DenseGenRealShiftSolve<double>> s(op, nev, ncv, double(sg));
                        s.init();
                        s.compute(r, 1000, 1e-10);
                        J("GenEigsRealShiftSolver" + cs + "|" + RN[ridx(r)], r, nev, lam, nu, s.info() == CompInfo::Successful, to_cl(Eigen::VectorXcd(s.eigenvalues())));
                    }
                    {
                        const CL sg(LD(2.63), LD(1.4));
                        std::vector<CL> nu;
                        for (auto& l : lam) nu.push_back((CL(1) / (l - sg) + CL(1) / (l - std::conj(sg))) / CL(2));
                        DenseGenComplexShiftSolve<double> op(Ad);
                        GenEigsComplexShiftSolver<DenseGenComplexShiftSolve<double>> s(op, nev, ncv, double(sg.real()), double(sg.imag()));
                        s.init();
                        s.compute(r, 1000, 1e-10);
                        J("GenEigsComplexShiftSolver" + cs + "|" + RN[ridx(r)], r, nev, lam, nu, s.info() == CompInfo::Successful, to_cl(Eigen::VectorXcd(s.eigenvalues())));
                    }
                }
            }
    });
    return R.finish("every (solver family, prescribed spectrum, rule, nev, ncv >= 2 nev + 1) of the catalogues; non-trivial = premise satisfied and the solver reported Successful",
                    {"the documented spectrum is known by construction (Q diag(lambda) Q', S blockdiag S^-1) or from Eigen's dense generalized solver in long double",
                     "premise: the k-th and (k+1)-th key of the rule are separated by >= 0.5 % of the key spread (all keys for BothEnds); otherwise skipped and counted",
                     "returned values are matched as a multiset to 1e-6 * spectral spread; non-convergence is counted, not judged (C01/C13 cover it)"});
}

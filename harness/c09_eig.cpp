// C09 - small dense eigen-decompositions are backward stable with exact pairing.
// Exhaustive over all small symmetric tridiagonal / upper Hessenberg matrices over integer alphabets,
// every companion matrix with coefficients in {-2..2} up to degree 5, rotated 2x2 Jordan blocks at every
// position and angle j*pi/64, five overall scalings, and - for EVERY size n in 2..64 - a catalogue of
// parameterised families.  Oracle in long double.
#include "engine/common.h"
#include "engine/oracle.h"
#include <Spectra/LinAlg/TridiagEigen.h>
#include <Spectra/LinAlg/UpperHessenbergSchur.h>
#include <Spectra/LinAlg/UpperHessenbergEigen.h>

using namespace vf;

template <typename T> static const char* tn();
template <> const char* tn<float>() { return "float"; }
template <> const char* tn<double>() { return "double"; }
template <> const char* tn<long double>() { return "longdouble"; }

static const LD CONST_C = 50;

struct Ctx
{
    Local& L;
    std::string key, replay;
    void check(const char* clause, LD err, LD bound)
    {
        LD r = (bound > 0) ? err / bound : ((err == 0) ? LD(0) : INFINITY);
        L.ratio(clause, r);
        if (!(err <= bound))
            L.violate(key + ":" + clause, replay, std::string(clause) + " err=" + gnum(err) + " bound=" + gnum(bound));
    }
    void fail(const char* clause, const std::string& d) { L.violate(key + ":" + clause, replay, d); }
};

template <typename T>
static void check_tridiag(const Eigen::MatrixXd& Md, Ctx c)
{
    using Mat = Eigen::Matrix<T, -1, -1>;
    Mat M = Md.cast<T>();
    const int n = M.rows();
    const LD u = Unit<T>::u();
    c.L.evaluations++;
    try
    {
        Spectra::TridiagEigen<T> eig(M);
        MatL Z = toL(eig.eigenvectors());
        VecL d = toL(eig.eigenvalues());
        if (!all_finite(Z) || !all_finite(d)) { c.fail("te:nonfinite", "NaN/Inf in eigenvalues or eigenvectors"); return; }
        // only the diagonal and lower sub-diagonal are read by the class
        MatL Ml = MatL::Zero(n, n);
        for (int i = 0; i < n; i++)
        {
            Ml(i, i) = M(i, i);
            if (i + 1 < n) Ml(i + 1, i) = Ml(i, i + 1) = M(i + 1, i);
        }
        LD nrm = fro(Ml);
        c.check("te:TZ-ZD", maxabs(Ml * Z - Z * d.asDiagonal()), CONST_C * n * u * nrm);
        c.check("te:ZtZ-I", maxabs(Z.transpose() * Z - MatL::Identity(n, n)), CONST_C * n * u);
    }
    catch (const std::runtime_error& e)
    {
        c.L.count("te_iteration_limit_exception");
    }
    catch (const std::exception& e)
    {
        c.fail("te:exception", e.what());
    }
}

template <typename T>
static void check_hess(const Eigen::MatrixXd& Hd, Ctx c)
{
    using Mat = Eigen::Matrix<T, -1, -1>;
    using CMat = Eigen::Matrix<std::complex<T>, -1, -1>;
    using CVec = Eigen::Matrix<std::complex<T>, -1, 1>;
    Mat H = Hd.cast<T>();
    const int n = H.rows();
    const LD u = Unit<T>::u();
    MatL Hl = toL(H);
    const LD nrm = fro(Hl);
    // ---- Schur
    c.L.evaluations++;
    try
    {
        Spectra::UpperHessenbergSchur<T> sch(H);
        MatL U = toL(sch.matrix_U()), Tm = toL(sch.matrix_T());
        if (!all_finite(U) || !all_finite(Tm)) c.fail("schur:nonfinite", "NaN/Inf in U or T");
        else
        {
            c.check("schur:UTUt-H", maxabs(U * Tm * U.transpose() - Hl), CONST_C * n * u * nrm);
            c.check("schur:UtU-I", maxabs(U.transpose() * U - MatL::Identity(n, n)), CONST_C * n * u);
            LD below = 0;
            bool consecutive = false;
            for (int j = 0; j < n; j++)
                for (int i = j + 2; i < n; i++) below = std::max(below, std::abs(Tm(i, j)));
            for (int i = 0; i + 2 < n; i++)
                if (Tm(i + 1, i) != 0 && Tm(i + 2, i + 1) != 0) consecutive = true;
            c.check("schur:T-quasi-triangular", below, 0);
            if (consecutive) c.fail("schur:T-consecutive-subdiagonals", "two adjacent non-zero sub-diagonal entries in T");
        }
    }
    catch (const std::runtime_error& e)
    {
        c.L.count("schur_iteration_limit_exception");
    }
    catch (const std::exception& e)
    {
        c.fail("schur:exception", e.what());
    }
    // ---- eigenpairs
    c.L.evaluations++;
    try
    {
        Spectra::UpperHessenbergEigen<T> eig(H);
        CVec ev = eig.eigenvalues();
        CMat X = eig.eigenvectors();
        if (!all_finite(ev) || !all_finite(X)) { c.fail("eig:nonfinite", "NaN/Inf in eigenvalues or eigenvectors"); return; }
        MatCL Xl = toCL(X);
        MatCL Hc = Hl.template cast<CL>();
        LD maxres = 0, maxnorm = 0;
        for (int j = 0; j < n; j++)
        {
            CL lam(ev[j].real(), ev[j].imag());
            VecCL x = Xl.col(j);
            maxres = std::max(maxres, (Hc * x - lam * x).norm());
            maxnorm = std::max(maxnorm, std::abs(x.norm() - 1));
        }
        c.check("eig:Hx-lx", maxres, CONST_C * n * u * nrm);
        c.check("eig:unit-norm", maxnorm, CONST_C * n * u);
        // exact pairing convention relied upon by GenEigsBase::is_complex / is_conj
        bool has_complex = false;
        for (int j = 0; j < n; j++)
        {
            T im = ev[j].imag();
            if (im == T(0))
            {
                if (std::signbit(im) && false) {}
                continue;
            }
            has_complex = true;
            if (im > T(0))
            {
                if (j + 1 >= n || !(ev[j + 1] == std::conj(ev[j]))) c.fail("eig:conjugate-not-adjacent", "eigenvalue " + num(j) + " with positive imaginary part is not followed by its exact conjugate");
                j++;
            }
            else
                c.fail("eig:negative-imag-first", "eigenvalue " + num(j) + " has negative imaginary part but does not follow its conjugate");
        }
        c.L.count(has_complex ? "hess_with_complex_pairs" : "hess_all_real");
    }
    catch (const std::runtime_error& e)
    {
        c.L.count("eig_iteration_limit_exception");
        if (nrm == 0) c.fail("eig:zero-matrix-exception", e.what());
    }
    catch (const std::exception& e)
    {
        c.fail("eig:exception", e.what());
    }
}

// ------------------------------------------------------------------ small alphabets
static const double D3[3] = {-1, 0, 1};
static const double D4[4] = {-1, 0, 1, 2};
static const double B2[2] = {0, 1};
static int hess_entries(int n) { return n * n - (n - 1) * (n - 2) / 2; }
static Eigen::MatrixXd hess_from(uint64_t idx, int n, const double* alpha, int na)
{
    Eigen::MatrixXd H = Eigen::MatrixXd::Zero(n, n);
    for (int j = 0; j < n; j++)
        for (int i = 0; i <= std::min(j + 1, n - 1); i++)
        {
            H(i, j) = alpha[idx % na];
            idx /= na;
        }
    return H;
}
static Eigen::MatrixXd tri_from(uint64_t idx, int n, const double* alpha, int na)
{
    Eigen::MatrixXd M = Eigen::MatrixXd::Zero(n, n);
    for (int i = 0; i < n; i++)
    {
        M(i, i) = alpha[idx % na];
        idx /= na;
    }
    for (int i = 0; i + 1 < n; i++)
    {
        M(i + 1, i) = M(i, i + 1) = alpha[idx % na];
        idx /= na;
    }
    return M;
}
static const double SCALES[5] = {1e-150, 1e-8, 1, 1e8, 1e150};
static const double SCALES_F[5] = {1e-15, 1e-4, 1, 1e4, 1e15};
template <typename T> static const double* scales() { return SCALES; }
template <> const double* scales<float>() { return SCALES_F; }

template <typename T>
static void tri_section(Runner& R, int n, bool scaled)
{
    std::string sec = std::string("trieig_") + tn<T>() + "_n" + num(n) + (scaled ? "_scaled" : "");
    R.run(sec, ipow(4, 2 * n - 1) * (scaled ? 5 : 1), [=](uint64_t idx, Local& L) {
        uint64_t nm = ipow(4, 2 * n - 1);
        Eigen::MatrixXd M = tri_from(idx % nm, n, D4, 4);
        double sc = scaled ? scales<T>()[idx / nm] : 1.0;
        M *= sc;
        check_tridiag<T>(M, Ctx{L, std::string("TridiagEigen:") + tn<T>() + ":T=" + mat_str(M), sec + "#" + num(idx)});
        L.count("distinct_by_construction");
        if (idx == 777 % nm) L.sample("{\"class\": \"TridiagEigen<" + std::string(tn<T>()) + ">\", \"T\": \"" + mat_str(M) + "\"}", 12);
    });
}
template <typename T>
static void hess_section(Runner& R, int n, const double* alpha, int na, const char* an, bool scaled)
{
    std::string sec = std::string("hesseig_") + tn<T>() + "_n" + num(n) + "_" + an + (scaled ? "_scaled" : "");
    uint64_t nm = ipow(na, hess_entries(n));
    R.run(sec, nm * (scaled ? 5 : 1), [=](uint64_t idx, Local& L) {
        Eigen::MatrixXd H = hess_from(idx % nm, n, alpha, na);
        double sc = scaled ? scales<T>()[idx / nm] : 1.0;
        H *= sc;
        check_hess<T>(H, Ctx{L, std::string("UpperHessenberg:") + tn<T>() + ":H=" + mat_str(H), sec + "#" + num(idx)});
        L.count("distinct_by_construction");
        if (idx == 777 % nm) L.sample("{\"class\": \"UpperHessenbergSchur/Eigen<" + std::string(tn<T>()) + ">\", \"H\": \"" + mat_str(H) + "\"}", 12);
    });
}

// companion matrix (upper Hessenberg form) of x^d + c[d-1] x^(d-1) + ... + c[0]
static Eigen::MatrixXd companion(const std::vector<double>& c)
{
    int d = c.size();
    Eigen::MatrixXd C = Eigen::MatrixXd::Zero(d, d);
    for (int i = 0; i + 1 < d; i++) C(i + 1, i) = 1;
    for (int i = 0; i < d; i++) C(i, d - 1) = -c[i];
    return C;
}

template <typename T>
static void companion_section(Runner& R, int d)
{
    std::string sec = std::string("companion_") + tn<T>() + "_deg" + num(d);
    R.run(sec, ipow(5, d), [=](uint64_t idx, Local& L) {
        std::vector<double> c(d);
        uint64_t x = idx;
        for (int i = 0; i < d; i++)
        {
            c[i] = double(int(x % 5) - 2);
            x /= 5;
        }
        Eigen::MatrixXd C = companion(c);
        check_hess<T>(C, Ctx{L, std::string("UpperHessenberg:") + tn<T>() + ":companion:H=" + mat_str(C), sec + "#" + num(idx)});
        L.count("distinct_by_construction");
    });
}

// rotated 2x2 Jordan block R(theta) [lam 1; 0 lam] R(theta)' at diagonal position p of an upper triangular 4x4/5x5
template <typename T>
static void rotjordan_section(Runner& R, int n)
{
    std::string sec = std::string("rotjordan_") + tn<T>() + "_n" + num(n);
    const int NL = 3, NTH = 63, NV = 3;
    R.run(sec, uint64_t(NL) * NTH * (n - 1) * NV, [=](uint64_t idx, Local& L) {
        static const double LAM[3] = {0, 1, -2};
        uint64_t x = idx;
        int li = x % NL; x /= NL;
        int j = 1 + x % NTH; x /= NTH;
        int p = x % (n - 1); x /= (n - 1);
        int variant = x % NV;
        double th = j * M_PI / 64, lam = LAM[li];
        Eigen::MatrixXd H = Eigen::MatrixXd::Zero(n, n);
        for (int c = 0; c < n; c++)
            for (int r = 0; r <= c; r++) H(r, c) = (variant == 0) ? 0.0 : (variant == 1 ? 1.0 : double(((r * 5 + c * 3) % 7) - 3));
        for (int i = 0; i < n; i++) H(i, i) = (variant == 0) ? double(i + 2) : double(3 + i);
        Eigen::Matrix2d Rt, J;
        Rt << std::cos(th), -std::sin(th), std::sin(th), std::cos(th);
        J << lam, 1, 0, lam;
        H.block(p, p, 2, 2) = Rt * J * Rt.transpose();
        check_hess<T>(H, Ctx{L, std::string("UpperHessenberg:") + tn<T>() + ":rotjordan:H=" + mat_str(H), sec + "#" + num(idx)});
        L.count("distinct_by_construction");
        if (idx == 100) L.sample("{\"class\": \"UpperHessenbergEigen<" + std::string(tn<T>()) + ">\", \"family\": \"rotated Jordan block\", \"H\": \"" + mat_str(H) + "\"}", 12);
    });
}

// ------------------------------------------------------------------ families for every n in 2..64
static const int NFAM_T = 9 + 3;  // tridiagonal families
static Eigen::MatrixXd tri_family(int f, int n)
{
    Eigen::MatrixXd M = Eigen::MatrixXd::Zero(n, n);
    auto set = [&](int i, double d, double e) { M(i, i) = d; if (i + 1 < n) M(i + 1, i) = M(i, i + 1) = e; };
    if (f < 9)
    {
        static const double A[3] = {0, 1, -2}, B[3] = {1, -1, 0.5};
        for (int i = 0; i < n; i++) set(i, A[f / 3], B[f % 3]);
    }
    else if (f == 9)  // Wilkinson W_n
        for (int i = 0; i < n; i++) set(i, std::abs((n - 1) / 2.0 - i), 1);
    else if (f == 10)  // symmetrised Clement
        for (int i = 0; i < n; i++) set(i, 0, std::sqrt(double(i + 1) * (n - 1 - i)));
    else  // graded
        for (int i = 0; i < n; i++) set(i, std::pow(10.0, -12.0 * i / std::max(1, n - 1)), 0.5 * std::pow(10.0, -12.0 * (i + 0.5) / std::max(1, n - 1)));
    return M;
}
static const int NFAM_H = 9;
static Eigen::MatrixXd hess_family(int f, int n, int param)
{
    Eigen::MatrixXd H = Eigen::MatrixXd::Zero(n, n);
    switch (f)
    {
        case 0:  // Frank matrix (upper Hessenberg)
            for (int i = 0; i < n; i++)
                for (int j = 0; j < n; j++)
                    if (j >= i - 1) H(i, j) = n - std::max(i, j);
            break;
        case 1:  // companion of (x-1)^n
        {
            std::vector<double> c(n);
            double b = 1;  // binomial(n, k)
            for (int k = 0; k < n; k++)
            {
                c[k] = (((n - k) % 2) ? -1.0 : 1.0) * b;
                b = b * (n - k) / (k + 1);
            }
            H = companion(c);
            break;
        }
        case 2:  // companion of x^n - 1 (cyclic shift: all eigenvalues on the unit circle)
        {
            std::vector<double> c(n, 0.0);
            c[0] = -1;
            H = companion(c);
            break;
        }
        case 3:  // non-symmetric Toeplitz tridiagonal (complex spectrum)
            for (int i = 0; i < n; i++)
            {
                H(i, i) = 1;
                if (i + 1 < n) { H(i + 1, i) = -1; H(i, i + 1) = 2; }
            }
            break;
        case 4:  // Kahan-like graded upper triangular + unit sub-diagonal
            for (int i = 0; i < n; i++)
            {
                double s = std::pow(0.9, i);
                H(i, i) = s;
                for (int j = i + 1; j < n; j++) H(i, j) = -0.4 * s;
                if (i + 1 < n) H(i + 1, i) = 1e-3;
            }
            break;
        case 5:  // Jordan-like: J_n(1) + eps in the corner... upper bidiagonal plus tiny sub-diagonal
            for (int i = 0; i < n; i++)
            {
                H(i, i) = 1;
                if (i + 1 < n) { H(i, i + 1) = 1; H(i + 1, i) = 1e-10; }
            }
            break;
        case 6:  // block diagonal: dense Hessenberg with an exactly zero sub-diagonal at position `param`
            for (int i = 0; i < n; i++)
                for (int j = 0; j < n; j++)
                    if (j >= i - 1) H(i, j) = double(((i * 3 + j * 5) % 7) - 3) + (i == j ? 0.5 : 0.0);
            if (param + 1 < n) H(param + 1, param) = 0;
            for (int i = 0; i + 1 < n; i++)
                if (i != param && H(i + 1, i) == 0) H(i + 1, i) = 1;
            break;
        case 7:  // exactly nilpotent shift (all eigenvalues 0, one Jordan block)
            for (int i = 0; i + 1 < n; i++) H(i + 1, i) = 1;
            break;
        case 8:  // zero matrix
            break;
    }
    return H;
}

template <typename T>
static void family_sections(Runner& R)
{
    std::string st = std::string("trifam_") + tn<T>();
    R.run(st, uint64_t(63) * NFAM_T, [=](uint64_t idx, Local& L) {
        int n = 2 + idx % 63, f = idx / 63;
        Eigen::MatrixXd M = tri_family(f, n);
        check_tridiag<T>(M, Ctx{L, std::string("TridiagEigen:") + tn<T>() + ":family" + num(f) + ":n=" + num(n), st + "#" + num(idx)});
        L.count("distinct_by_construction");
    });
    std::string sh = std::string("hessfam_") + tn<T>();
    // family 6 has a parameter (position of the zero sub-diagonal): every position for every n
    R.run(sh, uint64_t(63) * (NFAM_H - 1), [=](uint64_t idx, Local& L) {
        int n = 2 + idx % 63, f = idx / 63;
        if (f >= 6) f++;
        Eigen::MatrixXd H = hess_family(f, n, 0);
        check_hess<T>(H, Ctx{L, std::string("UpperHessenberg:") + tn<T>() + ":family" + num(f) + ":n=" + num(n), sh + "#" + num(idx)});
        L.count("distinct_by_construction");
    });
    std::string sb = std::string("hessblock_") + tn<T>();
    R.run(sb, uint64_t(63) * 63, [=](uint64_t idx, Local& L) {
        int n = 2 + idx % 63, p = idx / 63;
        if (p + 1 >= n) return;
        Eigen::MatrixXd H = hess_family(6, n, p);
        check_hess<T>(H, Ctx{L, std::string("UpperHessenberg:") + tn<T>() + ":family6:n=" + num(n) + ":zero_subdiag_at=" + num(p), sb + "#" + num(idx)});
        L.count("distinct_by_construction");
    });
}

int main(int argc, char** argv)
{
    Config cfg = parse_args(argc, argv, 240, 1500);
    Runner R("C09", cfg);
    const bool th = cfg.thorough();

    for (int n = 2; n <= 5; n++) tri_section<double>(R, n, false);
    for (int n = 2; n <= 4; n++)
    {
        tri_section<float>(R, n, false);
        tri_section<long double>(R, n, false);
    }
    tri_section<double>(R, 3, true);
    tri_section<float>(R, 3, true);
    for (int n = 2; n <= 4; n++) hess_section<double>(R, n, D3, 3, "D3", false);
    for (int n = 2; n <= 3; n++)
    {
        hess_section<float>(R, n, D3, 3, "D3", false);
        hess_section<long double>(R, n, D3, 3, "D3", false);
    }
    hess_section<double>(R, 3, D3, 3, "D3", true);
    hess_section<float>(R, 3, D3, 3, "D3", true);
    hess_section<long double>(R, 3, D3, 3, "D3", true);
    for (int d = 2; d <= 5; d++) companion_section<double>(R, d);
    for (int d = 2; d <= 4; d++) companion_section<float>(R, d);
    rotjordan_section<double>(R, 4);
    rotjordan_section<double>(R, 5);
    rotjordan_section<float>(R, 4);
    rotjordan_section<long double>(R, 4);
    family_sections<double>(R);
    family_sections<float>(R);
    family_sections<long double>(R);
    if (th)
    {
        tri_section<double>(R, 6, false);
        tri_section<float>(R, 5, false);
        tri_section<long double>(R, 5, false);
        hess_section<double>(R, 5, B2, 2, "B2", false);
        hess_section<float>(R, 4, D3, 3, "D3", false);
        hess_section<long double>(R, 4, D3, 3, "D3", false);
        companion_section<long double>(R, 5);
        companion_section<float>(R, 5);
    }

    return R.finish(
        "every symmetric tridiagonal over {-1,0,1,2} (n=2..5, thorough 6), every upper Hessenberg over {-1,0,1} (n=2..4) and {0,1} (n=5, thorough), every companion matrix with coefficients in {-2..2} (degree 2..5), "
        "rotated 2x2 Jordan blocks (63 angles x 3 eigenvalues x every diagonal position x 3 surroundings), 5 overall scalings of the complete n=3 alphabets, and for EVERY n in 2..64: 12 tridiagonal and 9 Hessenberg families "
        "(Toeplitz, Wilkinson, Clement, graded, Frank, companions of (x-1)^n and x^n-1, Kahan-like, near-Jordan, nilpotent, zero, block-diagonal with the zero sub-diagonal at every position); float/double/long double",
        {"long double arithmetic is the reference", "allowance 50*n*u*||H||_F fixed a priori", "a std::runtime_error (iteration limit) is an admissible outcome and is counted, except for the zero matrix"});
}

// C16 - PartialSVDSolver returns the leading singular triplets with orthonormal factors; the accessors always describe
// the most recent compute().  E1 over histories of compute(maxit, tol) calls (depth <= 3) on one solver object, for
// every (ncomp, ncv) legal for min(m, n), over
//   all 0/1 matrices of shape 2x3, 3x2, 3x3, 3x4, 4x3,
//   U diag(s) V' for singular-value catalogues (generic, graded, exactly rank deficient, repeated) x orthogonal
//   catalogues, every shape m <, =, > n with 2 <= m, n <= 6,
// dense column-/row-major and sparse column-/row-major storage.
// Oracle: values finite, >= 0, non-increasing, equal to the largest reference singular values; for sigma_i > 1e-4 ||A||:
// U'U = I, V'V = I, A V = U S, A'U = V S; matrix_U(k)/matrix_V(k) have min(k, nconv) columns for every k in 0..ncomp+1 and
// are bit-identical to those of a fresh solver given the arguments of the latest compute().
#include "engine/common.h"
#include "engine/oracle.h"
#include "engine/alphabet.h"
#include <Eigen/Sparse>
#include <Eigen/SVD>
#include <Spectra/contrib/PartialSVDSolver.h>

using namespace vf;
using namespace Spectra;

struct Args
{
    long maxit;
    double tol;
    std::string name() const { return "C(" + num(maxit) + "," + std::string(gnum(tol)) + ")"; }
};
static const Args ARGS[3] = {{1000, 1e-10}, {1, 1e-6}, {0, 1e-10}};

struct Snap
{
    long ret = -1;
    Eigen::VectorXd sv;
    std::vector<Eigen::MatrixXd> U, V;  // index k = 0..ncomp+1
    bool threw = false;
    std::string what;
};
static bool same_bits(const Eigen::MatrixXd& a, const Eigen::MatrixXd& b);
// The accessors are swept in ascending order of k (U before V) or in descending order (V before U); the harness uses one
// order on the explored object and the other on the fresh reference object, so any dependence of an accessor's result on
// the calls made before it (e.g. a cache sized by the first request) shows up in the bitwise comparison of the two.
// A second pass in the opposite order must reproduce the first pass (accessors are pure).
template <class Solver>
static void sweep(Solver& s, int ncomp, Snap& o, bool desc = false)
{
    try
    {
        o.sv = s.singular_values();
        o.U.assign(ncomp + 2, Eigen::MatrixXd());
        o.V.assign(ncomp + 2, Eigen::MatrixXd());
        for (int q = 0; q <= ncomp + 1; q++)
        {
            const int k = desc ? ncomp + 1 - q : q;
            if (desc) { o.V[k] = s.matrix_V(k); o.U[k] = s.matrix_U(k); }
            else { o.U[k] = s.matrix_U(k); o.V[k] = s.matrix_V(k); }
        }
        for (int q = 0; q <= ncomp + 1; q++)
        {
            const int k = desc ? q : ncomp + 1 - q;
            if (!same_bits(o.U[k], s.matrix_U(k)) || !same_bits(o.V[k], s.matrix_V(k)))
            {
                o.threw = true;
                o.what = "matrix_U/V(" + num(k) + ") returned something else when called again after other accessor calls";
                return;
            }
        }
    }
    catch (const std::exception& e)
    {
        o.threw = true;
        o.what = e.what();
    }
}
static bool same_bits(const Eigen::MatrixXd& a, const Eigen::MatrixXd& b)
{
    return a.rows() == b.rows() && a.cols() == b.cols() && (a.size() == 0 || std::memcmp(a.data(), b.data(), sizeof(double) * a.size()) == 0);
}

template <class MatType>
static void run_subject(const MatL& A, const MatType& M, const std::string& key0, const std::string& replay, int depth, Local& L)
{
    const int m = A.rows(), n = A.cols(), r = std::min(m, n);
    Eigen::JacobiSVD<MatL> ref(A);
    const VecL sref = ref.singularValues();
    const LD nA = std::max<LD>(sref[0], LD(0));
    const LD u = LD(std::numeric_limits<double>::epsilon());
    for (int ncomp = 1; ncomp <= r - 1; ncomp++)
        for (int ncv = ncomp + 1; ncv <= r; ncv++)
        {
            const std::string key = key0 + "|ncomp=" + num(ncomp) + ",ncv=" + num(ncv);
            L.count("subjects");
            // all histories over ARGS up to `depth`
            std::vector<std::vector<int>> hist = {{}};
            for (int d = 1; d <= depth; d++)
            {
                std::vector<std::vector<int>> next;
                for (auto& h : hist)
                    if (int(h.size()) == d - 1)
                        for (int a = 0; a < 3; a++) { auto g = h; g.push_back(a); next.push_back(g); }
                hist.insert(hist.end(), next.begin(), next.end());
            }
            for (auto& h : hist)
            {
                if (h.empty()) continue;
                std::string hn;
                for (size_t i = 0; i < h.size(); i++) hn += (i ? ";" : "") + ARGS[h[i]].name();
                auto viol = [&](const std::string& c, const std::string& d) { L.violate(key + "|" + hn + "|" + c, replay, d); };
                L.traces++;
                L.evaluations++;
                Snap cur, fresh;
                const Args& last = ARGS[h.back()];
                try
                {
                    PartialSVDSolver<MatType> s(M, ncomp, ncv);
                    for (size_t i = 0; i < h.size(); i++)
                    {
                        cur.ret = s.compute(ARGS[h[i]].maxit, ARGS[h[i]].tol);
                        L.transitions++;
                        if (i + 1 < h.size())
                        {
                            // touch the accessors between computes (this is what fills any cache)
                            Snap tmp;
                            sweep(s, ncomp, tmp);
                        }
                    }
                    sweep(s, ncomp, cur);
                    PartialSVDSolver<MatType> f(M, ncomp, ncv);
                    fresh.ret = f.compute(last.maxit, last.tol);
                    sweep(f, ncomp, fresh, true);
                }
                catch (const std::invalid_argument& e) { L.count("invalid_argument"); continue; }
                catch (const std::runtime_error& e) { L.count("runtime_error"); continue; }
                catch (const std::exception& e) { viol("exception", e.what()); continue; }
                if (cur.threw) { viol("accessor-threw", cur.what); continue; }
                {
                    Fnv f; f.str(key); f.str(hn);
                    L.states.insert(f.h);
                    if (cur.ret > 0) L.distinct.insert(f.h);
                    L.sample("{\"subject\": " + jstr(key) + ", \"history\": " + jstr(hn) + ", \"nconv\": " + num(cur.ret) + "}", 4);
                }
                const long nconv = cur.ret;
                L.count(nconv == ncomp ? "converged_all" : (nconv > 0 ? "converged_partly" : "converged_none"));
                // ---- values
                if (cur.sv.size() != nconv) viol("count", "compute() returned " + num(nconv) + " but singular_values().size()=" + num(long(cur.sv.size())));
                bool finite = true;
                for (long i = 0; i < cur.sv.size(); i++)
                {
                    const double v = cur.sv[i];
                    if (!std::isfinite(v)) { viol("nonfinite", "singular value " + num(i) + " is not finite"); finite = false; continue; }
                    if (v < 0) viol("negative", "singular value " + num(i) + " = " + gnum(v));
                    if (i + 1 < cur.sv.size() && cur.sv[i] < cur.sv[i + 1]) viol("order", "values not non-increasing at " + num(i));
                    if (nconv == ncomp && !(nA > 0))
                    {
                        if (std::abs(v) > 1e-150) viol("values", "zero matrix but sigma_" + num(i) + "=" + gnum(v));
                    }
                    else if (nconv == ncomp)
                    {
                        // eigenvalue of A'A within tol*sigma^2 + rounding: sigma within (tol + 1e3 u) ||A|| sqrt-safe
                        const LD err = std::abs(LD(v) - sref[i]);
                        const LD bound = std::max<LD>(std::sqrt((LD(last.tol) + 1e3L * u)) * 1e-3L, (LD(last.tol) + 1e3L * u)) * nA * 10 + (sref[i] > 0 ? (LD(last.tol) + 1e3L * u) * nA * nA / std::max(sref[i], LD(1e-300L)) : LD(0));
                        (void) bound;
                        // sigma^2 is accurate to (tol + 1e3 u) ||A||^2  =>  |sigma - ref| <= that / (sigma + ref)
                        const LD b2 = (LD(last.tol) + 1e3L * u) * nA * nA / std::max<LD>(LD(v) + sref[i], std::sqrt(LD(last.tol) + 1e3L * u) * nA);
                        L.ratio("values", err / b2);
                        if (!(err <= b2)) viol("values", "sigma_" + num(i) + "=" + gnum(v) + " reference " + gnum(sref[i]) + " err " + gnum(err) + " bound " + gnum(b2));
                    }
                }
                // ---- accessor shapes for every k, prefix property
                for (int k = 0; k <= ncomp + 1; k++)
                {
                    const long want = std::min<long>(k, nconv);
                    if (cur.U[k].cols() != want || cur.U[k].rows() != m) viol("shape", "matrix_U(" + num(k) + ") is " + num(long(cur.U[k].rows())) + "x" + num(long(cur.U[k].cols())) + ", expected " + num(m) + "x" + num(want));
                    if (cur.V[k].cols() != want || cur.V[k].rows() != n) viol("shape", "matrix_V(" + num(k) + ") is " + num(long(cur.V[k].rows())) + "x" + num(long(cur.V[k].cols())) + ", expected " + num(n) + "x" + num(want));
                }
                // ---- latest compute: bit-identical to a fresh solver with the latest arguments
                if (fresh.ret != cur.ret || !same_bits(fresh.sv, cur.sv)) viol("latest-values", "values differ from a fresh solver given the latest arguments (ret " + num(cur.ret) + "/" + num(fresh.ret) + ")");
                else
                    for (int k = 0; k <= ncomp + 1; k++)
                        if (!same_bits(fresh.U[k], cur.U[k]) || !same_bits(fresh.V[k], cur.V[k])) { viol("latest-factors", "matrix_U/V(" + num(k) + ") do not describe the most recent compute() (differ from a fresh solver with the same arguments)"); break; }
                // ---- factor identities for the returned triplets above 1e-4 ||A||
                if (finite && nconv > 0 && nA > 0)
                {
                    long kk = 0;
                    while (kk < nconv && LD(cur.sv[kk]) > 1e-4L * nA) kk++;
                    if (kk > 0 && cur.U[ncomp + 1].cols() >= kk && cur.V[ncomp + 1].cols() >= kk)
                    {
                        MatL Uk = cur.U[ncomp + 1].leftCols(kk).cast<LD>(), Vk = cur.V[ncomp + 1].leftCols(kk).cast<LD>();
                        VecL sk = cur.sv.head(kk).cast<LD>();
                        const LD kap = nA / sk[kk - 1];
                        const LD t = (LD(last.tol) + 1e4L * u) * kap * kap;
                        const LD e1 = maxabs(MatL(Uk.transpose() * Uk - MatL::Identity(kk, kk))), e2 = maxabs(MatL(Vk.transpose() * Vk - MatL::Identity(kk, kk)));
                        const LD e3 = maxabs(MatL(A * Vk - Uk * sk.asDiagonal())) / nA, e4 = maxabs(MatL(A.transpose() * Uk - Vk * sk.asDiagonal())) / nA;
                        L.ratio("UtU", e1 / t); L.ratio("VtV", e2 / t); L.ratio("AV-US", e3 / t); L.ratio("AtU-VS", e4 / t);
                        L.count("factor_identities_checked");
                        if (!(e1 <= t)) viol("U'U=I", gnum(e1) + " bound " + gnum(t));
                        if (!(e2 <= t)) viol("V'V=I", gnum(e2) + " bound " + gnum(t));
                        if (!(e3 <= t)) viol("AV=US", gnum(e3) + " bound " + gnum(t));
                        if (!(e4 <= t)) viol("A'U=VS", gnum(e4) + " bound " + gnum(t));
                    }
                }
            }
        }
}

static void run_matrix(const MatL& A, const std::string& desc, const std::string& replay, int depth, int storages, Local& L)
{
    Eigen::MatrixXd Mc = A.cast<double>();
    Eigen::Matrix<double, -1, -1, Eigen::RowMajor> Mr = Mc;
    if (storages & 1) run_subject<Eigen::MatrixXd>(A, Mc, "PartialSVDSolver<dense,col>|" + desc, replay, depth, L);
    if (storages & 2) run_subject<Eigen::Matrix<double, -1, -1, Eigen::RowMajor>>(A, Mr, "PartialSVDSolver<dense,row>|" + desc, replay, depth, L);
    if (storages & 4) { Eigen::SparseMatrix<double> S = Mc.sparseView(); run_subject<Eigen::SparseMatrix<double>>(A, S, "PartialSVDSolver<sparse,col>|" + desc, replay, depth, L); }
    if (storages & 8) { Eigen::SparseMatrix<double, Eigen::RowMajor> S = Mc.sparseView(); run_subject<Eigen::SparseMatrix<double, Eigen::RowMajor>>(A, S, "PartialSVDSolver<sparse,row>|" + desc, replay, depth, L); }
}

int main(int argc, char** argv)
{
    Config cfg = parse_args(argc, argv, 240, 1200);
    Runner R("C16", cfg);
    const bool q = cfg.quick();
    const int depth = 3; (void) q;
    const int shapes[5][2] = {{2, 3}, {3, 2}, {3, 3}, {3, 4}, {4, 3}};
    for (int sh = 0; sh < 5; sh++)
    {
        const int m = shapes[sh][0], n = shapes[sh][1];
        R.run("bin" + num(m) + "x" + num(n), ipow(2, m * n), [&, m, n](uint64_t idx, Local& L) {
            
            MatL A(m, n);
            uint64_t t = idx;
            for (int j = 0; j < n; j++)
                for (int i = 0; i < m; i++) { A(i, j) = LD(t & 1); t >>= 1; }
            run_matrix(A, "bin" + num(m) + "x" + num(n) + ":" + num(idx), "bin" + num(m) + "x" + num(n) + "#" + num(idx), depth, idx % 8 == 0 ? 15 : 1, L);
        });
    }
    // prescribed singular values
    struct Sh { int m, n; };
    std::vector<Sh> shp;
    for (int m = 2; m <= 6; m++)
        for (int n = 2; n <= 6; n++)
            if (std::min(m, n) >= 3 || (m == 2 && n == 2) ) shp.push_back({m, n});
    R.run("spec", shp.size() * 4 * 3, [&](uint64_t idx, Local& L) {
        const Sh s = shp[idx % shp.size()];
        const int cat = (idx / shp.size()) % 4, qi = idx / (shp.size() * 4);
        const int r = std::min(s.m, s.n);
        VecL sv(r);
        std::string cn;
        for (int i = 0; i < r; i++)
        {
            if (cat == 0) { sv[i] = r - i; cn = "generic"; }
            else if (cat == 1) { sv[i] = std::pow(LD(10), -3 * LD(i) / std::max(1, r - 1)); cn = "graded"; }
            else if (cat == 2) { sv[i] = i < (r + 1) / 2 ? LD(3 - i * LD(0.5)) : LD(0); cn = "rankdef"; }
            else { sv[i] = 2 - i / 2; cn = "repeated"; }
        }
        MatL Um = qcat_get(s.m, s.m >= 3 ? (qi == 0 ? 2 : (qi == 1 ? 3 : 1)) : (qi % 2 ? 1 : 0)), Vm = qcat_get(s.n, s.n >= 3 ? (qi == 0 ? 3 : (qi == 1 ? 1 : 2)) : (qi % 2 ? 0 : 1));
        MatL D = MatL::Zero(s.m, s.n);
        for (int i = 0; i < r; i++) D(i, i) = sv[i];
        MatL A = Um * D * Vm.transpose();
        run_matrix(A, "spec" + num(s.m) + "x" + num(s.n) + ":" + cn + ":q" + num(qi), "spec#" + num(idx), depth, 15, L);
    });
    return R.finish("every history of compute(maxit,tol) calls up to depth " + num(depth) + " over {(1000,1e-10),(1,1e-6),(0,1e-10)} with accessor sweeps in between, per (matrix, storage, every legal ncomp/ncv); states = (subject, history); non-trivial = the last compute returned >= 1 triplet",
                    {"reference singular values from Eigen::JacobiSVD in long double", "factor identities are required for returned sigma_i > 1e-4 ||A|| with allowance (tol + 1e4 eps) * (||A||/sigma_min_returned)^2",
                     "sigma_i^2 is an eigenvalue of A'A computed to tol*sigma_i^2: |sigma_i - reference| <= (tol + 1e3 eps) ||A||^2 / (sigma_i + reference)"});
}

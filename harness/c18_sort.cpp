// C18 - the eigenvalue ordering primitive is a correct permutation for every rule and tie.
// Exhaustive: all vectors of length 0..7 over tie-rich real / complex alphabets x all nine rules x
// three precisions; lengths 17..20 over two-letter alphabets (std::sort leaves its insertion-sort regime);
// all 9x9 (selection, sorting) pairs through the two solver bases.  Built with ASan: an invalid
// comparator makes std::sort run off the array.
#include "engine/common.h"
#include <Eigen/Core>
#include <Spectra/Util/SelectionRule.h>
#include <Spectra/SymEigsSolver.h>
#include <Spectra/GenEigsSolver.h>
#include <Spectra/SymEigsShiftSolver.h>
#include <Spectra/HermEigsSolver.h>
#include <Spectra/GenEigsRealShiftSolver.h>
#include <Spectra/GenEigsComplexShiftSolver.h>
#include <Spectra/MatOp/DenseSymShiftSolve.h>
#include <Spectra/MatOp/DenseHermMatProd.h>
#include <Spectra/MatOp/DenseGenRealShiftSolve.h>
#include <Spectra/MatOp/DenseGenComplexShiftSolve.h>
#include <Spectra/MatOp/DenseSymMatProd.h>
#include <Spectra/MatOp/DenseGenMatProd.h>
#include <algorithm>
#include <complex>

using namespace vf;
using Spectra::SortRule;
using Eigen::Index;

static const SortRule RULES[9] = {SortRule::LargestMagn, SortRule::LargestReal, SortRule::LargestImag, SortRule::LargestAlge,
                                  SortRule::SmallestMagn, SortRule::SmallestReal, SortRule::SmallestImag, SortRule::SmallestAlge,
                                  SortRule::BothEnds};
static const char* RNAME[9] = {"LargestMagn", "LargestReal", "LargestImag", "LargestAlge", "SmallestMagn", "SmallestReal", "SmallestImag", "SmallestAlge", "BothEnds"};
static bool real_supported(int r) { return r == 0 || r == 3 || r == 4 || r == 7 || r == 8; }
static bool cplx_supported(int r) { return r == 0 || r == 1 || r == 2 || r == 4 || r == 5 || r == 6; }

template <typename T> static const char* tn();
template <> const char* tn<float>() { return "float"; }
template <> const char* tn<double>() { return "double"; }
template <> const char* tn<long double>() { return "longdouble"; }

// brute-force reference key (ascending order of this key is the documented order)
static long double ref_key(int r, std::complex<long double> v)
{
    switch (r)
    {
        case 0: return -std::abs(v);
        case 1: return -v.real();
        case 2: return -std::abs(v.imag());
        case 3: case 8: return -v.real();
        case 4: return std::abs(v);
        case 5: return v.real();
        case 6: return std::abs(v.imag());
        case 7: return v.real();
    }
    return 0;
}

template <typename V>
static std::string vec_str(const V* v, int len)
{
    std::ostringstream o;
    o << "[";
    for (int i = 0; i < len; i++) o << (i ? "," : "") << v[i];
    o << "]";
    return o.str();
}

static bool is_perm(const std::vector<Index>& ind, int len)
{
    if ((int) ind.size() != len) return false;
    std::vector<char> seen(len, 0);
    for (Index i : ind)
    {
        if (i < 0 || i >= len || seen[i]) return false;
        seen[i] = 1;
    }
    return true;
}

// checks one (values, rule) result `ind`; returns "" or the failing clause
template <typename V>
static std::string check_order(int r, const V* vals, int len, const std::vector<Index>& ind)
{
    if (!is_perm(ind, len)) return "not-a-permutation";
    if (r != 8)
    {
        for (int i = 0; i + 1 < len; i++)
            if (ref_key(r, std::complex<long double>(vals[ind[i]])) > ref_key(r, std::complex<long double>(vals[ind[i + 1]])))
                return "keys-not-monotone";
        return "";
    }
    // BothEnds: for every prefix k the multiset = ceil(k/2) largest + floor(k/2) smallest
    std::vector<long double> sorted(len);
    for (int i = 0; i < len; i++) sorted[i] = std::complex<long double>(vals[i]).real();
    std::sort(sorted.begin(), sorted.end());
    for (int k = 0; k <= len; k++)
    {
        std::vector<long double> got(k), want;
        for (int i = 0; i < k; i++) got[i] = std::complex<long double>(vals[ind[i]]).real();
        int nl = (k + 1) / 2, ns = k / 2;
        for (int i = 0; i < ns; i++) want.push_back(sorted[i]);
        for (int i = 0; i < nl; i++) want.push_back(sorted[len - 1 - i]);
        std::sort(got.begin(), got.end());
        std::sort(want.begin(), want.end());
        for (int i = 0; i < k; i++)
            if (!(got[i] == want[i])) return "bothends-prefix-" + num(k);
    }
    return "";
}

template <typename T, SortRule Rule>
static std::vector<Index> sort_direct(const T* p, int len)
{
    Spectra::SortEigenvalue<T, Rule> s(p, len);
    return s.index();
}

// real vectors: argsort dispatch for all nine rules + SortEigenvalue directly for the real rules
template <typename T>
static void real_case(const T* vals, int len, const std::string& sec, uint64_t idx, Local& L)
{
    Eigen::Matrix<T, Eigen::Dynamic, 1> v(len);
    for (int i = 0; i < len; i++) v[i] = vals[i];
    for (int r = 0; r < 9; r++)
    {
        L.evaluations++;
        std::string key = std::string("argsort:") + tn<T>() + ":" + RNAME[r] + ":v=" + vec_str(vals, len);
        try
        {
            std::vector<Index> ind = Spectra::argsort<T>(RULES[r], v, len);
            if (!real_supported(r))
            {
                L.violate(key + ":accepted-undefined-rule", sec + "#" + num(idx), "argsort returned instead of throwing invalid_argument");
                continue;
            }
            std::string c = check_order(r, vals, len, ind);
            if (!c.empty())
                L.violate(key + ":" + c, sec + "#" + num(idx), "ind=" + vec_str(ind.data(), len));
            // two-argument overload must agree
            std::vector<Index> ind2 = Spectra::argsort<T>(RULES[r], v);
            std::string c2 = check_order(r, vals, len, ind2);
            if (!c2.empty())
                L.violate(key + ":default-len:" + c2, sec + "#" + num(idx), "ind=" + vec_str(ind2.data(), len));
        }
        catch (const std::invalid_argument&)
        {
            if (real_supported(r))
                L.violate(key + ":rejected-defined-rule", sec + "#" + num(idx), "invalid_argument for a rule defined for real values");
        }
        catch (const std::exception& e)
        {
            L.violate(key + ":wrong-exception", sec + "#" + num(idx), e.what());
        }
    }
    // direct functor use for the four real rules
    auto chk = [&](int r, const std::vector<Index>& ind) {
        L.evaluations++;
        std::string c = check_order(r, vals, len, ind);
        if (!c.empty())
            L.violate(std::string("SortEigenvalue:") + tn<T>() + ":" + RNAME[r] + ":v=" + vec_str(vals, len) + ":" + c, sec + "#" + num(idx), "ind=" + vec_str(ind.data(), len));
    };
    chk(0, sort_direct<T, SortRule::LargestMagn>(vals, len));
    chk(3, sort_direct<T, SortRule::LargestAlge>(vals, len));
    chk(4, sort_direct<T, SortRule::SmallestMagn>(vals, len));
    chk(7, sort_direct<T, SortRule::SmallestAlge>(vals, len));
}

template <typename T>
static void cplx_case(const std::complex<T>* vals, int len, const std::string& sec, uint64_t idx, Local& L)
{
    using C = std::complex<T>;
    auto chk = [&](int r, const std::vector<Index>& ind) {
        L.evaluations++;
        std::string c = check_order(r, vals, len, ind);
        if (!c.empty())
            L.violate(std::string("SortEigenvalue:complex-") + tn<T>() + ":" + RNAME[r] + ":v=" + vec_str(vals, len) + ":" + c, sec + "#" + num(idx), "ind=" + vec_str(ind.data(), len));
    };
    chk(0, sort_direct<C, SortRule::LargestMagn>(vals, len));
    chk(1, sort_direct<C, SortRule::LargestReal>(vals, len));
    chk(2, sort_direct<C, SortRule::LargestImag>(vals, len));
    chk(4, sort_direct<C, SortRule::SmallestMagn>(vals, len));
    chk(5, sort_direct<C, SortRule::SmallestReal>(vals, len));
    chk(6, sort_direct<C, SortRule::SmallestImag>(vals, len));
}

static const double RALPHA[6] = {-2, -1, -0.0, 0, 1, 2};
static const std::complex<double> CALPHA[8] = {{0, 0}, {1, 0}, {-1, 0}, {0, 1}, {0, -1}, {1, 1}, {1, -1}, {2, 0}};

template <typename T>
static void real_sections(Runner& R, int maxlen)
{
    for (int len = 0; len <= maxlen; len++)
    {
        std::string sec = std::string("real_") + tn<T>() + "_len" + num(len);
        R.run(sec, ipow(6, len), [&, len, sec](uint64_t idx, Local& L) {
            T vals[8];
            uint64_t x = idx;
            bool tie = false;
            for (int i = 0; i < len; i++)
            {
                vals[i] = T(RALPHA[x % 6]);
                x /= 6;
            }
            for (int i = 0; i < len; i++)
                for (int j = i + 1; j < len; j++)
                    if (std::abs(vals[i]) == std::abs(vals[j])) tie = true;
            real_case<T>(vals, len, sec, idx, L);
            if (len >= 2) L.count("distinct_by_construction");
            if (tie) L.count("inputs_with_ties");
            if (len == 5 && idx == 1234) L.sample("{\"type\": \"" + std::string(tn<T>()) + "\", \"values\": \"" + vec_str(vals, len) + "\", \"rules\": 9}");
        });
    }
}
template <typename T>
static void cplx_sections(Runner& R, int maxlen)
{
    for (int len = 0; len <= maxlen; len++)
    {
        std::string sec = std::string("cplx_") + tn<T>() + "_len" + num(len);
        R.run(sec, ipow(8, len), [&, len, sec](uint64_t idx, Local& L) {
            std::complex<T> vals[8];
            uint64_t x = idx;
            for (int i = 0; i < len; i++)
            {
                vals[i] = std::complex<T>(T(CALPHA[x % 8].real()), T(CALPHA[x % 8].imag()));
                x /= 8;
            }
            cplx_case<T>(vals, len, sec, idx, L);
            if (len >= 2) L.count("distinct_by_construction");
            if (len == 4 && idx == 1234) L.sample("{\"type\": \"complex-" + std::string(tn<T>()) + "\", \"values\": \"" + vec_str(vals, len) + "\", \"rules\": 6}");
        });
    }
}

// extreme magnitudes: squares of these values overflow / underflow the scalar type, denormals, near-max values
template <typename T> struct Extreme;
template <> struct Extreme<double> { static constexpr double v[8] = {0, 1, -1e-200, 1e-170, -1e170, 1e200, 4e-320, -1.7e308}; };
template <> struct Extreme<float> { static constexpr float v[8] = {0, 1, -1e-30f, 1e-25f, -1e25f, 1e30f, 1e-42f, -3e38f}; };
template <> struct Extreme<long double> { static constexpr long double v[8] = {0, 1, -1e-3000L, 1e-2700L, -1e2700L, 1e3000L, 1e-4940L, -1e4930L}; };
constexpr double Extreme<double>::v[8];
constexpr float Extreme<float>::v[8];
constexpr long double Extreme<long double>::v[8];

template <typename T>
static void extreme_sections(Runner& R, int maxlen_real, int maxlen_cplx)
{
    for (int len = 2; len <= maxlen_real; len++)
    {
        std::string sec = std::string("real_") + tn<T>() + "_extreme_len" + num(len);
        R.run(sec, ipow(8, len), [&, len, sec](uint64_t idx, Local& L) {
            T vals[8];
            uint64_t x = idx;
            for (int i = 0; i < len; i++) { vals[i] = Extreme<T>::v[x % 8]; x /= 8; }
            real_case<T>(vals, len, sec, idx, L);
            L.count("distinct_by_construction");
            L.count("inputs_with_extreme_magnitudes");
        });
    }
    for (int len = 2; len <= maxlen_cplx; len++)
    {
        std::string sec = std::string("cplx_") + tn<T>() + "_extreme_len" + num(len);
        R.run(sec, ipow(8, len), [&, len, sec](uint64_t idx, Local& L) {
            const T* e = Extreme<T>::v;
            const std::complex<T> alpha[8] = {{e[0], e[0]}, {e[5], e[0]}, {e[0], e[5]}, {e[4], e[4]}, {e[2], e[0]}, {e[3], e[3]}, {e[1], e[0]}, {e[2], -e[2]}};
            std::complex<T> vals[8];
            uint64_t x = idx;
            for (int i = 0; i < len; i++) { vals[i] = alpha[x % 8]; x /= 8; }
            cplx_case<T>(vals, len, sec, idx, L);
            L.count("distinct_by_construction");
        });
    }
}

int main(int argc, char** argv)
{
    Config cfg = parse_args(argc, argv, 240, 1500);
    Runner R("C18", cfg);
    const bool th = cfg.thorough();

    extreme_sections<double>(R, th ? 6 : 5, th ? 5 : 4);
    extreme_sections<float>(R, th ? 5 : 4, 4);
    extreme_sections<long double>(R, th ? 5 : 4, 4);

    real_sections<double>(R, 7);
    real_sections<float>(R, th ? 7 : 6);
    real_sections<long double>(R, th ? 7 : 6);
    cplx_sections<double>(R, th ? 7 : 5);
    cplx_sections<float>(R, th ? 6 : 5);
    cplx_sections<long double>(R, th ? 6 : 5);

    // long vectors over two-letter alphabets: every vector of the length
    static const double PAIRS[3][2] = {{-1, 2}, {-1, 1}, {0, -0.0}};
    for (int len = 17; len <= (th ? 20 : 17); len++)
        for (int p = 0; p < 3; p++)
        {
            std::string sec = "long_len" + num(len) + "_pair" + num(p);
            R.run(sec, uint64_t(1) << len, [&, len, p, sec](uint64_t idx, Local& L) {
                double vals[20];
                for (int i = 0; i < len; i++) vals[i] = PAIRS[p][(idx >> i) & 1];
                Eigen::VectorXd v = Eigen::Map<Eigen::VectorXd>(vals, len);
                for (int r : {0, 3, 4, 7, 8})
                {
                    L.evaluations++;
                    std::vector<Index> ind = Spectra::argsort<double>(RULES[r], v, len);
                    std::string c = check_order(r, vals, len, ind);
                    if (!c.empty())
                        L.violate(std::string("argsort:double:") + RNAME[r] + ":v=" + vec_str(vals, len) + ":" + c, sec + "#" + num(idx), "ind=" + vec_str(ind.data(), len));
                }
                std::complex<double> cv[20];
                for (int i = 0; i < len; i++) cv[i] = std::complex<double>(vals[i], (i & 1) ? vals[i] : -vals[i]);
                if ((idx & 7) == 0) cplx_case<double>(cv, len, sec, idx, L);
                L.count("distinct_by_construction");
            });
        }

    // the solvers reject undefined rules (both as selection and as sorting argument): every solver family that dispatches on
    // a rule x EVERY legal (nev, ncv) for n = 6 x all 81 (selection, sorting) pairs
    {
        struct Cfg { int fam, nev, ncv; };
        static std::vector<Cfg> cfgs;
        cfgs.clear();
        for (int fam = 0; fam < 6; fam++)
        {
            const bool gen = fam >= 3;
            for (int nev = 1; nev <= (gen ? 4 : 5); nev++)
                for (int ncv = nev + (gen ? 2 : 1); ncv <= 6; ncv++) cfgs.push_back({fam, nev, ncv});
        }
        static const char* FAM[6] = {"SymEigsSolver", "SymEigsShiftSolver", "HermEigsSolver", "GenEigsSolver", "GenEigsRealShiftSolver", "GenEigsComplexShiftSolver"};
        R.run("solver_rules", 81 * cfgs.size(), [&](uint64_t idx, Local& L) {
            const Cfg cf = cfgs[idx / 81];
            const int fam = cf.fam, s = (idx % 81) / 9, t = idx % 9;
            Eigen::MatrixXd A = Eigen::MatrixXd::Zero(6, 6);
            for (int i = 0; i < 6; i++)
            {
                A(i, i) = i + 1;
                if (i) A(i, i - 1) = A(i - 1, i) = 0.5;
            }
            bool expect_ok, threw_ia = false, threw_other = false;
            std::string what;
            try
            {
                if (fam < 3)
                {
                    expect_ok = real_supported(s) && (t == 0 || t == 3 || t == 4 || t == 7);
                    if (fam == 0)
                    {
                        Spectra::DenseSymMatProd<double> op(A);
                        Spectra::SymEigsSolver<Spectra::DenseSymMatProd<double>> eigs(op, cf.nev, cf.ncv);
                        eigs.init();
                        eigs.compute(RULES[s], 100, 1e-10, RULES[t]);
                    }
                    else if (fam == 1)
                    {
                        Spectra::DenseSymShiftSolve<double> op(A);
                        Spectra::SymEigsShiftSolver<Spectra::DenseSymShiftSolve<double>> eigs(op, cf.nev, cf.ncv, 0.3);
                        eigs.init();
                        eigs.compute(RULES[s], 100, 1e-10, RULES[t]);
                    }
                    else
                    {
                        Eigen::MatrixXcd Ac = A.cast<std::complex<double>>();
                        Ac(0, 1) = std::complex<double>(0.5, 0.25); Ac(1, 0) = std::complex<double>(0.5, -0.25);
                        Spectra::DenseHermMatProd<std::complex<double>> op(Ac);
                        Spectra::HermEigsSolver<Spectra::DenseHermMatProd<std::complex<double>>> eigs(op, cf.nev, cf.ncv);
                        eigs.init();
                        eigs.compute(RULES[s], 100, 1e-10, RULES[t]);
                    }
                }
                else
                {
                    expect_ok = cplx_supported(s) && cplx_supported(t);
                    A(0, 5) = 1;
                    if (fam == 3)
                    {
                        Spectra::DenseGenMatProd<double> op(A);
                        Spectra::GenEigsSolver<Spectra::DenseGenMatProd<double>> eigs(op, cf.nev, cf.ncv);
                        eigs.init();
                        eigs.compute(RULES[s], 100, 1e-10, RULES[t]);
                    }
                    else if (fam == 4)
                    {
                        Spectra::DenseGenRealShiftSolve<double> op(A);
                        Spectra::GenEigsRealShiftSolver<Spectra::DenseGenRealShiftSolve<double>> eigs(op, cf.nev, cf.ncv, 0.3);
                        eigs.init();
                        eigs.compute(RULES[s], 100, 1e-10, RULES[t]);
                    }
                    else
                    {
                        Spectra::DenseGenComplexShiftSolve<double> op(A);
                        Spectra::GenEigsComplexShiftSolver<Spectra::DenseGenComplexShiftSolve<double>> eigs(op, cf.nev, cf.ncv, 0.3, 0.4);
                        eigs.init();
                        eigs.compute(RULES[s], 100, 1e-10, RULES[t]);
                    }
                }
            }
            catch (const std::invalid_argument& e) { threw_ia = true; what = e.what(); }
            catch (const std::exception& e) { threw_other = true; what = e.what(); }
            L.evaluations++;
            L.count("distinct_by_construction");
            std::string key = std::string(FAM[fam]) + ":nev=" + num(cf.nev) + ",ncv=" + num(cf.ncv) + ":selection=" + RNAME[s] + ":sorting=" + RNAME[t];
            if (threw_other) L.violate(key + ":wrong-exception", "solver_rules#" + num(idx), what);
            else if (expect_ok && threw_ia) L.violate(key + ":rejected-defined-rule", "solver_rules#" + num(idx), what);
            else if (!expect_ok && !threw_ia) L.violate(key + ":accepted-undefined-rule", "solver_rules#" + num(idx), "compute() returned");
        });
    }

    return R.finish(
        "every vector of length 0..7 over {-2,-1,-0,0,1,2} (real) and length 0..5/7 over {0,+-1,+-i,1+-i,2} (complex) x all nine rules x float/double/long double; "
        "every vector of length 2..5 over an 8-letter alphabet of extreme magnitudes (squares overflow/underflow, denormals, near-max) per type; every vector of length 17 (thorough: ..20) over three two-letter alphabets; all 81 (selection,sorting) pairs through six solver families (plain, shift, Hermitian, general, real shift, complex shift) for every legal (nev,ncv) at n=6. "
        "Each index is a distinct input; non-trivial = length >= 2",
        {"std::sort/std::abs of libstdc++", "ties may appear in any order (std::sort is unstable): only key monotonicity and multiset equality are required"});
}

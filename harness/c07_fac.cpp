// C07 - the Krylov factorization invariant  A V = V H + f e_k',  V^H B V = I,  V^H B f = 0,  H Hessenberg / real
// symmetric tridiagonal, k = advertised dimension, at every point where the factorization is passed on.
//
// (a) direct drive: real Lanczos / Arnoldi objects (public API; private fields read with -fno-access-control) are taken
//     through init(v) ; extend(to m) ; [restart(k, shift set) ; extend(to m)]^d  for EVERY k in 1..m-1 and EVERY admissible
//     shift set drawn from the current Ritz values (all (m-k)-subsets, closed under conjugation for Arnoldi: single shifts
//     through TridiagQR / UpperHessenbergQR, conjugate pairs through DoubleShiftQR) plus shift sets from {0,+||A||,-||A||}.
//     Start vectors include eigenvectors and vectors in small invariant subspaces so that breakdown happens at every
//     position; operators: real symmetric, complex Hermitian, real general, and B^{-1}A with the B-inner product.
// (b) in-solver: the guarded observation hook (Spectra/Util/VerifHooks.h) reports every factorization that real solver
//     runs (SymEigsSolver, GenEigsSolver, shift-and-invert, generalized Cholesky / regular-inverse) pass on; the same
//     oracle is evaluated there, including the breakdown exits of expand_basis.
#include "engine/common.h"
#include "engine/oracle.h"
#include "engine/alphabet.h"
#include <Eigen/Eigenvalues>
#include <Eigen/Sparse>
#include <Spectra/LinAlg/Arnoldi.h>
#include <Spectra/LinAlg/Lanczos.h>
#include <Spectra/SymEigsSolver.h>
#include <Spectra/SymEigsShiftSolver.h>
#include <Spectra/GenEigsSolver.h>
#include <Spectra/GenEigsRealShiftSolver.h>
#include <Spectra/HermEigsSolver.h>
#include <Spectra/SymGEigsSolver.h>
#include <Spectra/MatOp/DenseSymMatProd.h>
#include <Spectra/MatOp/DenseHermMatProd.h>
#include <Spectra/MatOp/DenseGenMatProd.h>
#include <Spectra/MatOp/DenseSymShiftSolve.h>
#include <Spectra/MatOp/DenseGenRealShiftSolve.h>
#include <Spectra/MatOp/DenseCholesky.h>
#include <Spectra/MatOp/SparseSymMatProd.h>
#include <Spectra/MatOp/SparseRegularInverse.h>
#include <algorithm>

using namespace vf;
using Spectra::SortRule;

struct Ref
{
    MatCL Aop;  // the operator the factorization iterates with (exact, long double)
    MatCL B;    // inner-product matrix (identity for standard problems)
    LD normA = 0, condB = 1, scale_extra = 1;
    bool lanczos = false;
    std::string key, replay;
};

template <typename S>
static MatCL map_mat(const void* p, long r, long c, long ld)
{
    MatCL M(r, c);
    const S* d = static_cast<const S*>(p);
    for (long j = 0; j < c; j++)
        for (long i = 0; i < r; i++) M(i, j) = CL(d[j * ld + i]);
    return M;
}

// the oracle, on a type-erased view
template <typename S>
static void check_view(const Ref& R, int point, const Spectra::verif::FacView& v, long k_adv, int restarts, const std::string& where, Local& L)
{
    using Real = typename Eigen::NumTraits<S>::Real;
    const LD u = LD(std::numeric_limits<Real>::epsilon());
    const long n = v.n, k = v.k, m = v.m;
    L.count("points_checked");
    L.count(std::string("point_") + (point == 0 ? "init" : point == 1 ? "extended" : point == 2 ? "compressed" : point == 3 ? "expanded" : "expand_failed"));
    auto viol = [&](const std::string& clause, const std::string& d) { L.violate(R.key + "|" + where + "|" + clause, R.replay, d); };
    const MatCL V = map_mat<S>(v.V, n, k, n);
    const VecCL f = map_mat<S>(v.f, n, 1, n);
    const LD beta = LD(*static_cast<const Real*>(v.beta));
    if (!all_finite(V) || !all_finite(f) || !std::isfinite((double) beta))
    {
        viol("nonfinite", "NaN/Inf in V, f or beta");
        return;
    }
    const LD tolA = 1e4L * u * std::max(R.normA, std::numeric_limits<LD>::min()) * R.scale_extra * (1 + restarts);
    // orthonormality of the basis
    {
        const MatCL G = V.adjoint() * R.B * V - MatCL::Identity(k, k);
        const LD g = maxabs(G), gb = 1e4L * u * R.condB * R.scale_extra;
        L.ratio("VBV-I", g / gb);
        if (!(g <= gb)) viol("V'BV=I", "max|V^H B V - I|=" + gnum(g) + " bound=" + gnum(gb) + " k=" + num(k));
    }
    const LD fB = std::sqrt(std::abs((f.adjoint() * R.B * f)(0, 0)));
    if (point == Spectra::verif::FacExpanded || point == Spectra::verif::FacExpandFailed)
    {
        // a fresh direction: must be non-zero and B-orthogonal to V relative to its own norm
        if (point == Spectra::verif::FacExpandFailed) L.count("expand_basis_gave_up");
        const LD o = maxabs(MatCL(V.adjoint() * R.B * f));
        const LD ob = 1e4L * u * R.condB * fB;
        if (!(fB > 0)) viol("fresh-direction-zero", "expand_basis returned f = 0");
        else
        {
            L.ratio("fresh_VBf", o / ob);
            if (!(o <= ob)) viol("fresh-direction-orth", "max|V^H B f|=" + gnum(o) + " bound=" + gnum(ob) + " ||f||=" + gnum(fB));
            if (std::abs(beta - fB) > 1e3L * u * fB) viol("beta", "fnorm=" + gnum(beta) + " but ||f||_B=" + gnum(fB));
        }
        return;
    }
    if (k_adv >= 0 && k != k_adv) viol("dimension", "subspace dimension " + num(k) + " but " + num(k_adv) + " was advertised");
    const MatCL Hfull = map_mat<S>(v.H, m, m, m);
    const MatCL H = Hfull.topLeftCorner(k, k);
    // structure of H, exactly
    for (long j = 0; j < k; j++)
        for (long i = 0; i < k; i++)
        {
            // Lanczos writes the band only: exact zeros required.  The double-shift QR leaves the annihilated bulge
            // entries at rounding level (C08 states its Hessenberg shape to n*eps*(||H||+|s|)): that much is tolerated
            if (i > j + 1 && H(i, j) != CL(0))
            {
                L.count("hessenberg_rounding_residue");
                if (R.lanczos || std::abs(H(i, j)) > 1e3L * u * R.normA) { viol("hessenberg", "H(" + num(i) + "," + num(j) + ")=" + gnum(std::abs(H(i, j))) + " below the sub-diagonal"); i = k; j = k; break; }
            }
            if (R.lanczos)
            {
                if (j > i + 1 && H(i, j) != CL(0)) { viol("tridiagonal", "H(" + num(i) + "," + num(j) + ") non-zero outside the band"); i = k; j = k; break; }
                // the complex Hermitian variant stores H in the complex type: rounding-level imaginary parts on the
                // diagonal are tolerated (solvers read H.real()), anything larger is a violation
                if (std::abs(H(i, j).imag()) > 1e3L * u * R.normA) { viol("tridiagonal-real", "H(" + num(i) + "," + num(j) + ") has imaginary part " + gnum(H(i, j).imag())); i = k; j = k; break; }
                if (H(i, j).real() != H(j, i).real()) { viol("tridiagonal-symmetric", "H(" + num(i) + "," + num(j) + ") != H(" + num(j) + "," + num(i) + ")"); i = k; j = k; break; }
            }
        }
    // A V = V H + f e_k'
    {
        MatCL Rm = R.Aop * V - V * H;
        Rm.col(k - 1) -= f;
        const LD r = maxabs(Rm);
        L.ratio("AV-VH-fe", r / tolA);
        if (!(r <= tolA)) viol("AV=VH+fe'", "max|A V - V H - f e_k'|=" + gnum(r) + " bound=" + gnum(tolA) + " k=" + num(k) + " restarts=" + num(restarts));
    }
    // V^H B f = 0 relative to ||A||
    {
        const LD o = maxabs(MatCL(V.adjoint() * R.B * f));
        const LD ob = 1e4L * u * R.condB * std::max(R.normA, std::numeric_limits<LD>::min()) * R.scale_extra * (1 + restarts);
        L.ratio("VBf", o / ob);
        if (!(o <= ob)) viol("V'Bf=0", "max|V^H B f|=" + gnum(o) + " bound=" + gnum(ob));
    }
    if (std::abs(beta - fB) > 1e3L * u * std::max(fB, u * R.normA)) viol("beta", "f_norm()=" + gnum(beta) + " but ||f||_B=" + gnum(fB));
}

template <typename M>
static void hash_node(Fnv& h, const M& H)
{
    for (Eigen::Index j = 0; j < H.cols(); j++)
        for (Eigen::Index i = 0; i < H.rows(); i++)
        {
            const double a = std::abs(H(i, j));
            h.pod(a);
        }
}
// ---------------------------------------------------------------- hook plumbing
struct HookCtx
{
    const Ref* R = nullptr;
    Local* L = nullptr;
    int restarts = 0;
    std::string where;
    void (*check)(const Ref&, int, const Spectra::verif::FacView&, long, int, const std::string&, Local&) = nullptr;
    bool only_expand = false;
};
static void hook_fn(int point, const Spectra::verif::FacView& v, void* ctx)
{
    HookCtx* c = static_cast<HookCtx*>(ctx);
    if (!c || !c->R) return;
    if (point == Spectra::verif::FacCompressed) c->restarts++;
    if (c->only_expand && point != Spectra::verif::FacExpanded && point != Spectra::verif::FacExpandFailed) return;
    c->check(*c->R, point, v, -1, c->restarts, c->where + "@hook" + num(point), *c->L);
}
struct HookGuard
{
    HookGuard(HookCtx* c)
    {
        Spectra::verif::fac_observer = hook_fn;
        Spectra::verif::fac_ctx = c;
    }
    ~HookGuard()
    {
        Spectra::verif::fac_observer = nullptr;
        Spectra::verif::fac_ctx = nullptr;
    }
};

// ---------------------------------------------------------------- user operators with a B inner product
template <typename S>
struct UserOp
{
    using Scalar = S;
    Eigen::Matrix<S, -1, -1> M;
    Eigen::Index rows() const { return M.rows(); }
    Eigen::Index cols() const { return M.cols(); }
    void perform_op(const S* x, S* y) const
    {
        Eigen::Map<const Eigen::Matrix<S, -1, 1>> xv(x, M.cols());
        Eigen::Map<Eigen::Matrix<S, -1, 1>> yv(y, M.rows());
        yv.noalias() = M * xv;
    }
};

// ---------------------------------------------------------------- direct drive
template <typename Fac, typename S>
static Spectra::verif::FacView view_of(const Fac& F)
{
    return Spectra::verif::FacView{F.m_fac_V.data(), long(F.m_n), long(F.m_k), F.m_fac_H.data(), long(F.m_m), F.m_fac_f.data(), &F.m_beta, &F.m_op};
}

// one restart with an explicit shift list (real shifts; for Arnoldi a negative "pair" entry encodes (s,t) double shift)
struct Shift
{
    bool dbl = false;
    double a = 0, b = 0;  // single: a ; double: s = a, t = b
};

template <typename S>
static void apply_restart(Spectra::Lanczos<S, Spectra::ArnoldiOp<S, UserOp<S>, Spectra::IdentityBOp>>&, long, const std::vector<Shift>&) {}

template <typename Fac, typename S>
static void do_restart(Fac& F, long k, const std::vector<Shift>& sh, bool lanczos, Eigen::Index& ops)
{
    using Real = typename Eigen::NumTraits<S>::Real;
    const long m = F.m_m;
    if constexpr (std::is_base_of<Spectra::Lanczos<S, typename std::decay<decltype(F.m_op)>::type>, Fac>::value)
    {
        Spectra::TridiagQR<Real> decomp(m);
        Eigen::Matrix<Real, -1, -1> Q = Eigen::Matrix<Real, -1, -1>::Identity(m, m);
        for (const Shift& s : sh)
        {
            decomp.compute(F.matrix_H().real(), Real(s.a));
            decomp.apply_YQ(Q);
            F.compress_H(decomp);
        }
        F.compress_V(Q);
    }
    else
    {
        Spectra::DoubleShiftQR<S> ds(m);
        Spectra::UpperHessenbergQR<S> hb(m);
        Eigen::Matrix<S, -1, -1> Q = Eigen::Matrix<S, -1, -1>::Identity(m, m);
        for (const Shift& s : sh)
        {
            if (s.dbl)
            {
                ds.compute(F.matrix_H(), S(s.a), S(s.b));
                ds.apply_YQ(Q);
                F.compress_H(ds);
            }
            else
            {
                hb.compute(F.matrix_H(), S(s.a));
                hb.apply_YQ(Q);
                F.compress_H(hb);
            }
        }
        F.compress_V(Q);
    }
    (void) lanczos;
    (void) k;
    (void) ops;
}

// all admissible shift sets of total count p from the Ritz values of the current H (+ a few non-Ritz sets)
template <typename S>
static std::vector<std::vector<Shift>> shift_sets(const Eigen::Matrix<S, -1, -1>& H, long m, long p, bool lanczos, bool all_subsets, double ascale)
{
    std::vector<std::vector<Shift>> out;
    std::vector<Shift> units;  // each unit consumes 1 (single) or 2 (double) shifts
    if (lanczos)
    {
        Eigen::SelfAdjointEigenSolver<Eigen::MatrixXd> es(H.real().template cast<double>());
        if (es.info() != Eigen::Success) return out;
        for (long i = 0; i < m; i++) units.push_back({false, es.eigenvalues()[i], 0});
    }
    else
    {
        if constexpr (!Eigen::NumTraits<S>::IsComplex)
        {
            Eigen::EigenSolver<Eigen::MatrixXd> es(H.template cast<double>(), false);
            if (es.info() != Eigen::Success) return out;
            for (long i = 0; i < m; i++)
            {
                std::complex<double> z = es.eigenvalues()[i];
                if (z.imag() == 0) units.push_back({false, z.real(), 0});
                else if (z.imag() > 0) units.push_back({true, 2 * z.real(), std::norm(z)});
            }
        }
    }
    const int nu = int(units.size());
    if (all_subsets && nu <= 10)
    {
        for (int mask = 1; mask < (1 << nu); mask++)
        {
            long cnt = 0;
            std::vector<Shift> s;
            for (int i = 0; i < nu; i++)
                if (mask >> i & 1) { cnt += units[i].dbl ? 2 : 1; s.push_back(units[i]); }
            if (cnt == p) out.push_back(s);
        }
    }
    else
    {
        // contiguous runs in the sorted order (what a solver's selection produces) from either end
        for (int start = 0; start < nu; start++)
        {
            long cnt = 0;
            std::vector<Shift> s;
            for (int i = start; i < nu && cnt < p; i++) { cnt += units[i].dbl ? 2 : 1; s.push_back(units[i]); }
            if (cnt == p) out.push_back(s);
        }
    }
    // non-Ritz shift sets from the alphabet {0, +1, -1}: any shift is algebraically admissible
    {
        std::vector<Shift> s;
        const double alt[3] = {0.0, ascale, -ascale};  // in units of ||A||: the helpers are accurate to eps*(||H||+|s|)
        for (long i = 0; i < p; i++) s.push_back({false, alt[i % 3], 0});
        out.push_back(s);
    }
    return out;
}

template <typename Fac, typename S>
static void drive(const Ref& R, Fac& F, long m, int depth, int restarts, const std::string& path, bool all_subsets, Local& L, HookCtx& hc, uint64_t& budget);

template <typename Fac, typename S, typename MakeFac>
static void drive_from_start(const Ref& R, MakeFac make, const Eigen::Matrix<S, -1, 1>& v0, long m, int depth, bool all_subsets, const std::string& vname, Local& L)
{
    // the tree of restart sequences is explored by replay: a Fac cannot be copied, so every node is rebuilt from init
    struct Node { std::vector<std::pair<long, std::vector<Shift>>> seq; };
    std::vector<Node> frontier(1), next;
    for (int d = 0; d <= depth; d++)
    {
        next.clear();
        for (const Node& nd : frontier)
        {
            auto Fp = make();
            Fac& F = *Fp;
            HookCtx hc;
            hc.R = &R; hc.L = &L; hc.check = &check_view<S>; hc.only_expand = true;
            std::string where = "m=" + num(m) + "|v=" + vname;
            hc.where = where;
            HookGuard hg(&hc);
            Eigen::Index ops = 0;
            L.traces++;
            try
            {
                Eigen::Map<const Eigen::Matrix<S, -1, 1>> mv(v0.data(), v0.size());
                F.init(mv, ops);
                if (nd.seq.empty()) check_view<S>(R, 0, view_of<Fac, S>(F), 1, 0, where + "|init", L);
                F.factorize_from(1, m, ops);
                L.transitions += 2;
                if (nd.seq.empty()) check_view<S>(R, 1, view_of<Fac, S>(F), m, 0, where + "|extend", L);
                int rs = 0;
                for (size_t q = 0; q < nd.seq.size(); q++)
                {
                    const bool last = (q + 1 == nd.seq.size());
                    std::string w = where;
                    for (size_t t = 0; t <= q; t++)
                    {
                        w += "|r(k=" + num(nd.seq[t].first) + ":";
                        for (auto& s : nd.seq[t].second) w += (s.dbl ? "D" : "S") + std::string(gnum(s.a)) + (s.dbl ? "/" + std::string(gnum(s.b)) : "") + ",";
                        w += ")";
                    }
                    hc.where = w;
                    do_restart<Fac, S>(F, nd.seq[q].first, nd.seq[q].second, R.lanczos, ops);
                    rs++;
                    hc.restarts = rs;
                    if (last) check_view<S>(R, 2, view_of<Fac, S>(F), nd.seq[q].first, rs, w + "|compressed", L);
                    F.factorize_from(nd.seq[q].first, m, ops);
                    L.transitions += 2;
                    if (last) check_view<S>(R, 1, view_of<Fac, S>(F), m, rs, w + "|extend", L);
                }
                L.evaluations++;
                L.count("states_by_construction");
                {
                    Fnv hh;
                    hh.str(R.key);
                    hh.str(hc.where);
                    hash_node(hh, F.m_fac_H);
                    L.distinct.insert(hh.h);
                    if (d == depth) L.sample("{\"factorization\": " + jstr(R.key) + ", \"path\": " + jstr(hc.where) + "}", 4);
                }
                if (d < depth)
                    for (long k = 1; k <= m - 1; k++)
                    {
                        // Arnoldi solvers keep k <= m-2; k = m-1 is still a legal call of the factorization API
                        for (auto& ss : shift_sets<S>(F.m_fac_H, m, m - k, R.lanczos, all_subsets, double(R.normA)))
                        {
                            Node c = nd;
                            c.seq.push_back({k, ss});
                            next.push_back(c);
                        }
                    }
            }
            catch (const std::exception& e)
            {
                L.violate(R.key + "|" + hc.where + "|exception", R.replay, e.what());
            }
        }
        frontier.swap(next);
    }
}

// ---------------------------------------------------------------- subjects for the direct drive
template <typename S>
static std::vector<std::pair<std::string, VecCL>> start_vectors_herm(const MatCL& A)
{
    const int n = A.rows();
    Eigen::SelfAdjointEigenSolver<MatCL> es(A);
    const MatCL Q = es.eigenvectors();
    std::vector<std::pair<std::string, VecCL>> out;
    VecCL v(n);
    for (int i = 0; i < n; i++) v[i] = CL(i + 1, 0);
    out.push_back({"ramp", v});
    v.setZero(); v[0] = 1; out.push_back({"e1", v});
    out.push_back({"q0", Q.col(0)});
    out.push_back({"q0+q1", Q.col(0) + Q.col(1)});
    if (n >= 3) out.push_back({"q0+q1+qn", Q.col(0) + Q.col(1) + Q.col(n - 1)});
    v.setOnes(); out.push_back({"ones", v});
    return out;
}

template <typename S, typename OpT, typename FacT>
static void drive_standard(const MatCL& A, bool lanczos, const std::string& key, const std::string& replay, int depth, bool all_subsets, int mmax,
                           const std::vector<std::pair<std::string, VecCL>>& starts, Local& L)
{
    using Mat = Eigen::Matrix<S, -1, -1>;
    using Vec = Eigen::Matrix<S, -1, 1>;
    const int n = A.rows();
    Ref R;
    R.Aop = A;
    R.B = MatCL::Identity(n, n);
    R.normA = fro(A);
    R.lanczos = lanczos;
    R.replay = replay;
    Mat M(n, n);
    for (int j = 0; j < n; j++)
        for (int i = 0; i < n; i++)
        {
            if constexpr (Eigen::NumTraits<S>::IsComplex) M(i, j) = S(double(A(i, j).real()), double(A(i, j).imag()));
            else M(i, j) = S(A(i, j).real());
        }
    OpT op(M);
    for (int m = 2; m <= std::min(n, mmax); m++)
        for (auto& sv : starts)
        {
            Vec v0(n);
            for (int i = 0; i < n; i++)
            {
                if constexpr (Eigen::NumTraits<S>::IsComplex) v0[i] = S(double(sv.second[i].real()), double(sv.second[i].imag()));
                else v0[i] = S(sv.second[i].real());
            }
            if (!(v0.norm() > 0)) continue;
            R.key = key;
            auto make = [&]() { return std::make_unique<FacT>(Spectra::ArnoldiOp<S, OpT, Spectra::IdentityBOp>(op, Spectra::IdentityBOp()), m); };
            drive_from_start<FacT, S>(R, make, v0, m, depth, all_subsets, sv.first, L);
        }
}

// B^{-1}A with the B-inner product (what the regular-inverse generalized mode iterates with)
static void drive_generalized(const MatL& A, const MatL& B, const std::string& key, const std::string& replay, int depth, bool all_subsets, Local& L)
{
    using S = double;
    const int n = A.rows();
    Ref R;
    const MatL Binv = B.inverse();
    R.Aop = (Binv * A).cast<CL>();
    R.B = B.cast<CL>();
    R.normA = fro(R.Aop);
    Eigen::SelfAdjointEigenSolver<MatL> eb(B);
    R.condB = eb.eigenvalues()[n - 1] / eb.eigenvalues()[0];
    R.scale_extra = R.condB;  // B^{-1}A is applied with relative error ~ cond(B) eps
    R.lanczos = true;
    R.replay = replay;
    R.key = key;
    UserOp<S> op{(Binv * A).cast<double>()};
    UserOp<S> bop{B.cast<double>()};
    using AOp = Spectra::ArnoldiOp<S, UserOp<S>, UserOp<S>>;
    using FacT = Spectra::Lanczos<S, AOp>;
    // start vectors: generic + B-orthogonal eigenvectors of the pencil
    Eigen::GeneralizedSelfAdjointEigenSolver<MatL> ges(A, B);
    std::vector<std::pair<std::string, Eigen::VectorXd>> starts;
    Eigen::VectorXd v(n);
    for (int i = 0; i < n; i++) v[i] = i + 1;
    starts.push_back({"ramp", v});
    starts.push_back({"x0", ges.eigenvectors().col(0).cast<double>()});
    starts.push_back({"x0+x1", (ges.eigenvectors().col(0) + ges.eigenvectors().col(1)).cast<double>()});
    for (int m = 2; m <= n; m++)
        for (auto& sv : starts)
        {
            auto make = [&]() { return std::make_unique<FacT>(AOp(op, bop), m); };
            drive_from_start<FacT, S>(R, make, sv.second, m, depth, all_subsets, sv.first, L);
        }
}

// ---------------------------------------------------------------- (b) in-solver observation
template <typename S, typename Solver>
static void observe_solver(const Ref& R, Solver& s, const std::vector<SortRule>& rules, const std::vector<long>& maxits, const Eigen::Matrix<S, -1, 1>* v0, Local& L)
{
    using Real = typename Eigen::NumTraits<S>::Real;
    for (SortRule rule : rules)
        for (long maxit : maxits)
        {
            HookCtx hc;
            hc.R = &R; hc.L = &L; hc.check = &check_view<S>;
            hc.where = std::string("solver|rule=") + num(int(rule)) + "|maxit=" + num(maxit) + (v0 ? "|v0" : "|init()");
            HookGuard hg(&hc);
            try
            {
                if (v0) s.init(v0->data());
                else s.init();
                s.compute(rule, maxit, Real(1e-10));
                L.evaluations++;
                L.count("solver_runs_observed");
                if (hc.restarts > 0) L.count("solver_runs_with_restart");
            }
            catch (const std::invalid_argument&) { L.count("solver_invalid_argument"); }
            catch (const std::runtime_error&) { L.count("solver_runtime_error"); }
        }
}

static const std::vector<SortRule> SYMR = {SortRule::LargestMagn, SortRule::SmallestAlge, SortRule::BothEnds};
static const std::vector<SortRule> GENR = {SortRule::LargestMagn, SortRule::SmallestReal, SortRule::LargestImag};

static void in_solver_sym(const MatL& A, const std::string& key, const std::string& replay, Local& L)
{
    const int n = A.rows();
    Ref R;
    R.Aop = A.cast<CL>();
    R.B = MatCL::Identity(n, n);
    R.normA = fro(A);
    R.lanczos = true;
    R.replay = replay;
    Eigen::MatrixXd M = A.cast<double>();
    Eigen::SelfAdjointEigenSolver<MatL> es(A);
    Eigen::VectorXd q01 = (es.eigenvectors().col(0) + es.eigenvectors().col(1)).cast<double>();
    for (auto cfg : cfg_sym(n))
    {
        R.key = "SymEigsSolver|" + key + "|nev=" + num(cfg.first) + ",ncv=" + num(cfg.second);
        Spectra::DenseSymMatProd<double> op(M);
        Spectra::SymEigsSolver<Spectra::DenseSymMatProd<double>> s(op, cfg.first, cfg.second);
        observe_solver<double>(R, s, SYMR, {0, 2, 1000}, nullptr, L);
        observe_solver<double>(R, s, SYMR, {3}, &q01, L);
        // shift-and-invert: the iterated operator is (A - sigma I)^{-1}
        const LD sig = es.eigenvalues()[0] - 0.37L * std::max<LD>(R.normA, 1);
        Ref R2 = R;
        MatL Sh = A - sig * MatL::Identity(n, n);
        R2.Aop = Sh.inverse().cast<CL>();
        R2.normA = fro(R2.Aop);
        R2.scale_extra = fro(Sh) * R2.normA;
        R2.key = "SymEigsShiftSolver|" + key + "|nev=" + num(cfg.first) + ",ncv=" + num(cfg.second) + ",sigma=" + gnum(sig);
        Spectra::DenseSymShiftSolve<double> sop(M);
        Spectra::SymEigsShiftSolver<Spectra::DenseSymShiftSolve<double>> ss(sop, cfg.first, cfg.second, double(sig));
        observe_solver<double>(R2, ss, SYMR, {2, 1000}, nullptr, L);
    }
}
static void in_solver_gen(const MatL& A, const std::string& key, const std::string& replay, Local& L)
{
    const int n = A.rows();
    Ref R;
    R.Aop = A.cast<CL>();
    R.B = MatCL::Identity(n, n);
    R.normA = fro(A);
    R.lanczos = false;
    R.replay = replay;
    Eigen::MatrixXd M = A.cast<double>();
    for (auto cfg : cfg_gen(n))
    {
        R.key = "GenEigsSolver|" + key + "|nev=" + num(cfg.first) + ",ncv=" + num(cfg.second);
        Spectra::DenseGenMatProd<double> op(M);
        Spectra::GenEigsSolver<Spectra::DenseGenMatProd<double>> s(op, cfg.first, cfg.second);
        observe_solver<double>(R, s, GENR, {0, 2, 300}, nullptr, L);
        Eigen::VectorXd e1 = Eigen::VectorXd::Zero(n);
        e1[0] = 1;
        observe_solver<double>(R, s, GENR, {3}, &e1, L);
    }
}
static void in_solver_geigs(const MatL& A, const MatL& B, const std::string& key, const std::string& replay, Local& L)
{
    const int n = A.rows();
    Eigen::MatrixXd Ad = A.cast<double>(), Bd = B.cast<double>();
    Eigen::SelfAdjointEigenSolver<MatL> eb(B);
    const LD condB = eb.eigenvalues()[n - 1] / eb.eigenvalues()[0];
    for (auto cfg : cfg_sym(n))
    {
        {
            // Cholesky mode iterates with inv(L) A inv(L') in the Euclidean inner product
            Eigen::LLT<MatL> llt(B);
            MatL Lm = llt.matrixL();
            MatL Li = Lm.inverse();
            Ref R;
            R.Aop = (Li * A * Li.transpose()).cast<CL>();
            R.B = MatCL::Identity(n, n);
            R.normA = fro(R.Aop);
            R.scale_extra = condB;
            R.lanczos = true;
            R.replay = replay;
            R.key = "SymGEigsSolver<Cholesky>|" + key + "|nev=" + num(cfg.first) + ",ncv=" + num(cfg.second);
            Spectra::DenseSymMatProd<double> op(Ad);
            Spectra::DenseCholesky<double> bop(Bd);
            Spectra::SymGEigsSolver<Spectra::DenseSymMatProd<double>, Spectra::DenseCholesky<double>, Spectra::GEigsMode::Cholesky> s(op, bop, cfg.first, cfg.second);
            observe_solver<double>(R, s, SYMR, {2, 1000}, nullptr, L);
        }
        {
            // regular-inverse mode iterates with inv(B) A in the B inner product
            Ref R;
            R.Aop = (B.inverse() * A).cast<CL>();
            R.B = B.cast<CL>();
            R.normA = fro(R.Aop);
            R.condB = condB;
            R.scale_extra = condB * 1e3L;  // inv(B) is applied by conjugate gradients (default tolerance), not exactly
            R.lanczos = true;
            R.replay = replay;
            R.key = "SymGEigsSolver<RegularInverse>|" + key + "|nev=" + num(cfg.first) + ",ncv=" + num(cfg.second);
            Eigen::SparseMatrix<double> As = Ad.sparseView(), Bs = Bd.sparseView();
            Spectra::SparseSymMatProd<double> op(As);
            Spectra::SparseRegularInverse<double> bop(Bs);
            Spectra::SymGEigsSolver<Spectra::SparseSymMatProd<double>, Spectra::SparseRegularInverse<double>, Spectra::GEigsMode::RegularInverse> s(op, bop, cfg.first, cfg.second);
            observe_solver<double>(R, s, SYMR, {2, 1000}, nullptr, L);
        }
    }
}

static MatL spd_B(int n, int which)
{
    MatL B = MatL::Zero(n, n);
    if (which == 0) for (int i = 0; i < n; i++) B(i, i) = i + 1;
    else if (which == 1) for (int i = 0; i < n; i++) { B(i, i) = 4; if (i + 1 < n) B(i, i + 1) = B(i + 1, i) = 1; }
    else for (int i = 0; i < n; i++) B(i, i) = std::pow(LD(10), -4 * LD(i) / (n - 1));
    return B;
}

int main(int argc, char** argv)
{
    Config cfg = parse_args(argc, argv, 200, 1500);
    Runner R("C07", cfg);
    const bool q = cfg.quick();
    const int depth = q ? 2 : 3;
    using LanR = Spectra::Lanczos<double, Spectra::ArnoldiOp<double, Spectra::DenseSymMatProd<double>, Spectra::IdentityBOp>>;
    using LanC = Spectra::Lanczos<std::complex<double>, Spectra::ArnoldiOp<std::complex<double>, Spectra::DenseHermMatProd<std::complex<double>>, Spectra::IdentityBOp>>;
    using ArnR = Spectra::Arnoldi<double, Spectra::ArnoldiOp<double, Spectra::DenseGenMatProd<double>, Spectra::IdentityBOp>>;

    // ---- (a) direct drive
    R.run("lan_sint3", sint_count(3, 3), [&](uint64_t idx, Local& L) {
        MatCL A = sint_get(3, D3(), idx).cast<CL>();
        drive_standard<double, Spectra::DenseSymMatProd<double>, LanR>(A, true, "Lanczos|sint3:" + num(idx), "lan_sint3#" + num(idx), depth, true, 3, start_vectors_herm<double>(A), L);
    });
    R.run("lan_sint4", sint_count(4, 3), [&](uint64_t idx, Local& L) {
        if (idx % (q ? 81 : 3) != 0) { L.count("skipped_tier"); return; }
        MatCL A = sint_get(4, D3(), idx).cast<CL>();
        drive_standard<double, Spectra::DenseSymMatProd<double>, LanR>(A, true, "Lanczos|sint4:" + num(idx), "lan_sint4#" + num(idx), depth, true, 4, start_vectors_herm<double>(A), L);
    });
    for (int n : {5, 6})
    {
        R.run("lan_struct" + num(n), sstruct_count(n) * 3, [&, n](uint64_t idx, Local& L) {
            const int s = idx % sstruct_count(n), sc = idx / sstruct_count(n);
            const LD scale[3] = {1, 1e-6L, 1e6L};
            std::string nm;
            MatCL A = (sstruct_get(n, s, &nm) * scale[sc]).cast<CL>();
            drive_standard<double, Spectra::DenseSymMatProd<double>, LanR>(A, true, "Lanczos|struct" + num(n) + ":" + nm + ":x" + gnum(scale[sc]), "lan_struct" + num(n) + "#" + num(idx), q ? 1 : 2, n <= 5, n, start_vectors_herm<double>(A), L);
        });
    }
    R.run("lan_spec6", uint64_t(lcat_count()) * 4 * 3, [&](uint64_t idx, Local& L) {
        const int n = 6, l = idx % lcat_count(), qq = (idx / lcat_count()) % 4, sc = idx / (lcat_count() * 4);
        const LD scale[3] = {1, 1e-8L, 1e8L};
        std::string ln, qn;
        MatL A0 = qcat_get(n, qq == 0 ? 0 : qq + 1, &qn) * lcat_get(n, l, &ln).asDiagonal() * qcat_get(n, qq == 0 ? 0 : qq + 1).transpose() * scale[sc];
        MatCL A = ((A0 + A0.transpose()) / 2).cast<CL>();
        drive_standard<double, Spectra::DenseSymMatProd<double>, LanR>(A, true, "Lanczos|spec6:" + ln + ":" + qn + ":x" + gnum(scale[sc]), "lan_spec6#" + num(idx), 1, false, q ? 5 : 6, start_vectors_herm<double>(A), L);
    });
    R.run("lan_hint3", hint_count(3), [&](uint64_t idx, Local& L) {
        if (idx % (q ? 9 : 1) != 0) { L.count("skipped_tier"); return; }
        MatCL A = hint_get(3, idx);
        drive_standard<std::complex<double>, Spectra::DenseHermMatProd<std::complex<double>>, LanC>(A, true, "LanczosHerm|hint3:" + num(idx), "lan_hint3#" + num(idx), depth, true, 3, start_vectors_herm<double>(A), L);
    });
    auto gen_starts = [](const MatL& A) {
        const int n = A.rows();
        std::vector<std::pair<std::string, VecCL>> out;
        VecCL v(n);
        for (int i = 0; i < n; i++) v[i] = CL(i + 1, 0);
        out.push_back({"ramp", v});
        v.setZero(); v[0] = 1; out.push_back({"e1", v});
        v.setOnes(); out.push_back({"ones", v});
        Eigen::EigenSolver<MatL> es(A);
        for (int i = 0; i < n; i++)
            if (es.eigenvalues()[i].imag() == 0)
            {
                VecCL r(n);
                for (int k = 0; k < n; k++) r[k] = es.eigenvectors()(k, i).real();
                if (r.norm() > 0.5L) { out.push_back({"realeigvec", r}); break; }
            }
        for (int i = 0; i < n; i++)
            if (es.eigenvalues()[i].imag() > 0)
            {
                VecCL r(n);
                for (int k = 0; k < n; k++) r[k] = es.eigenvectors()(k, i).real() + LD(0.5) * es.eigenvectors()(k, i).imag();
                if (r.norm() > 1e-3L) { out.push_back({"cplxplane", r}); break; }
            }
        return out;
    };
    R.run("arn_gint3", gint_count(3, 3), [&](uint64_t idx, Local& L) {
        if (idx % (q ? 3 : 1) != 0) { L.count("skipped_tier"); return; }
        MatL A = gint_get(3, D3(), idx);
        drive_standard<double, Spectra::DenseGenMatProd<double>, ArnR>(A.cast<CL>(), false, "Arnoldi|gint3:" + num(idx), "arn_gint3#" + num(idx), depth, true, 3, gen_starts(A), L);
    });
    R.run("arn_gint4", gint_count(4, 2), [&](uint64_t idx, Local& L) {
        if (idx % (q ? 64 : 4) != 1) { L.count("skipped_tier"); return; }
        MatL A = gint_get(4, D01(), idx);
        drive_standard<double, Spectra::DenseGenMatProd<double>, ArnR>(A.cast<CL>(), false, "Arnoldi|gint4:" + num(idx), "arn_gint4#" + num(idx), depth, true, 4, gen_starts(A), L);
    });
    {
        // structured general: rotations / Jordan / companion / non-normal prescribed spectrum, n = 5
        std::vector<std::pair<std::string, MatL>> fam;
        const int n = 5;
        const LD PI = std::acos(LD(-1));
        for (int a = 1; a <= 4; a++)
        {
            MatL Rm = MatL::Identity(n, n);
            const LD t = PI * a / 5;
            Rm(0, 0) = std::cos(t); Rm(1, 1) = std::cos(t); Rm(0, 1) = -std::sin(t); Rm(1, 0) = std::sin(t);
            MatL R2 = MatL::Identity(n, n);
            R2(2, 2) = std::cos(2 * t); R2(4, 4) = std::cos(2 * t); R2(2, 4) = -std::sin(2 * t); R2(4, 2) = std::sin(2 * t);
            fam.push_back({"rot" + num(a), MatL(Rm * R2 * LD(1.5))});
        }
        for (int k = 2; k <= n; k++)
        {
            MatL J = MatL::Zero(n, n);
            for (int i = 0; i < n; i++) J(i, i) = i < k ? LD(1) : LD(i + 2);
            for (int i = 0; i + 1 < k; i++) J(i, i + 1) = 1;
            fam.push_back({"jordan" + num(k), J});
        }
        {
            MatL C = MatL::Zero(n, n);
            for (int i = 0; i + 1 < n; i++) C(i + 1, i) = 1;
            C(0, n - 1) = 1;
            fam.push_back({"cyclic", C});
            MatL D = MatL::Zero(n, n);
            D(0, 0) = 0.5; D(1, 1) = 0.5; D(0, 1) = 1.5; D(1, 0) = -1.5; D(2, 2) = -1.25; D(3, 3) = 2; D(4, 4) = 3;
            MatL Sm = MatL::Identity(n, n);
            for (int k = 0; k + 1 < n; k++) Sm(k + 1, k) = 1;
            fam.push_back({"nonnormal", MatL(Sm * D * Sm.inverse())});
        }
        for (LD scale : {LD(1), LD(1e-6), LD(1e6)})
            R.run("arn_struct5_x" + std::string(gnum(scale)), fam.size(), [&, scale](uint64_t idx, Local& L) {
                MatL A = fam[idx].second * scale;
                drive_standard<double, Spectra::DenseGenMatProd<double>, ArnR>(A.cast<CL>(), false, "Arnoldi|struct5:" + fam[idx].first + ":x" + gnum(scale), "arn_struct5_x" + std::string(gnum(scale)) + "#" + num(idx), q ? 1 : 2, true, 5, gen_starts(A), L);
            });
    }
    R.run("lanB_sint3", sint_count(3, 3) * 3, [&](uint64_t idx, Local& L) {
        const uint64_t ai = idx % sint_count(3, 3);
        const int bi = idx / sint_count(3, 3);
        if (q && ai % 3 != 0) { L.count("skipped_tier"); return; }
        drive_generalized(sint_get(3, D3(), ai), spd_B(3, bi), "LanczosB|sint3:" + num(ai) + ":B" + num(bi), "lanB_sint3#" + num(idx), depth, true, L);
    });
    R.run("lanB_struct5", sstruct_count(5) * 3, [&](uint64_t idx, Local& L) {
        const int s = idx % sstruct_count(5), bi = idx / sstruct_count(5);
        std::string nm;
        MatL A = sstruct_get(5, s, &nm);
        drive_generalized(A, spd_B(5, bi), "LanczosB|struct5:" + nm + ":B" + num(bi), "lanB_struct5#" + num(idx), 1, true, L);
    });

    // ---- (b) in-solver observation through the guarded hook
    R.run("solver_sym_sint3", sint_count(3, 3), [&](uint64_t idx, Local& L) { in_solver_sym(sint_get(3, D3(), idx), "sint3:" + num(idx), "solver_sym_sint3#" + num(idx), L); });
    R.run("solver_sym_struct", sstruct_count(6) + sstruct_count(8), [&](uint64_t idx, Local& L) {
        const int n = idx < uint64_t(sstruct_count(6)) ? 6 : 8, s = n == 6 ? idx : idx - sstruct_count(6);
        std::string nm;
        MatL A = sstruct_get(n, s, &nm);
        in_solver_sym(A, "struct" + num(n) + ":" + nm, "solver_sym_struct#" + num(idx), L);
    });
    R.run("solver_sym_spec6", uint64_t(lcat_count()) * 3, [&](uint64_t idx, Local& L) {
        const int n = 6, l = idx % lcat_count(), sc = idx / lcat_count();
        const LD scale[3] = {1, 1e-8L, 1e6L};
        std::string ln;
        MatL A0 = qcat_get(n, 3) * lcat_get(n, l, &ln).asDiagonal() * qcat_get(n, 3).transpose() * scale[sc];
        in_solver_sym(MatL((A0 + A0.transpose()) / 2), "spec6:" + ln + ":x" + gnum(scale[sc]), "solver_sym_spec6#" + num(idx), L);
    });
    R.run("solver_gen_gint3", gint_count(3, 3), [&](uint64_t idx, Local& L) {
        if (q && idx % 3 != 0) { L.count("skipped_tier"); return; }
        in_solver_gen(gint_get(3, D3(), idx), "gint3:" + num(idx), "solver_gen_gint3#" + num(idx), L);
    });
    R.run("solver_gen_gint4", gint_count(4, 2), [&](uint64_t idx, Local& L) {
        if (idx % (q ? 16 : 1) != 3) { L.count("skipped_tier"); return; }
        in_solver_gen(gint_get(4, D01(), idx), "gint4:" + num(idx), "solver_gen_gint4#" + num(idx), L);
    });
    R.run("solver_geigs", sint_count(3, 3) * 3 + uint64_t(sstruct_count(5)) * 3, [&](uint64_t idx, Local& L) {
        const uint64_t n3 = sint_count(3, 3) * 3;
        if (idx < n3)
        {
            const uint64_t ai = idx % sint_count(3, 3);
            if (q && ai % 9 != 0) { L.count("skipped_tier"); return; }
            in_solver_geigs(sint_get(3, D3(), ai), spd_B(3, idx / sint_count(3, 3)), "sint3:" + num(ai) + ":B" + num(idx / sint_count(3, 3)), "solver_geigs#" + num(idx), L);
        }
        else
        {
            const uint64_t j = idx - n3;
            std::string nm;
            MatL A = sstruct_get(5, j % sstruct_count(5), &nm);
            in_solver_geigs(A, spd_B(5, j / sstruct_count(5)), "struct5:" + nm + ":B" + num(j / sstruct_count(5)), "solver_geigs#" + num(idx), L);
        }
    });
    return R.finish(
        "direct drive: every (start vector, m) x every restart sequence [restart(k, shift set); extend] to depth " + num(depth) +
            " with every k in 1..m-1 and every admissible (m-k)-subset of the current Ritz values (+ a non-Ritz shift set), states = tree nodes; "
            "in-solver: every hook point of real solver runs over the listed subjects; non-trivial = all (each node is a distinct factorization)",
        {"reference operator in long double; generalized modes compare against inv(B) A / inv(L) A inv(L') formed in long double with an allowance proportional to cond(B)",
         "allowances fixed a priori: 1e4*eps*||A||*(1+#restarts) for A V = V H + f e' and V'Bf, 1e4*eps*cond(B) for V'BV = I",
         "Ritz values for the shift sets come from Eigen's dense solvers in double (any shift is algebraically admissible)"});
}

// C03 - the symmetric generalized solvers return true pencil eigenpairs with B-orthonormal vectors.
// E1 history search (engine/e1.h) over the five modes and storage pairings:
//   SymGEigsSolver<Cholesky>        DenseSymMatProd + DenseCholesky,  SparseSymMatProd + SparseCholesky
//   SymGEigsSolver<RegularInverse>  SparseSymMatProd + SparseRegularInverse
//   SymGEigsShiftSolver<ShiftInvert | Buckling | Cayley>  SymShiftInvert<dense,dense> + DenseSymMatProd,
//                                   SymShiftInvert<sparse,sparse> + SparseSymMatProd (shift-invert)
// Pencils: A from ALL symmetric 3x3 matrices over {-1,0,1} x B in {I, diag(1,2,3), tridiag(1,4,1), L L' for every unit
// lower-triangular L over {0,1}}; structured A (n = 5, 6) x B in {diag(1..n), tridiag(1,4,1), graded diagonal with
// condition 1e4 and 1e8}; every legal (nev, ncv); shifts {0.3, -0.3, 1.2345} kept when A - sigma B is well conditioned.
// Oracle after every compute (any history): ||A x - lambda B x|| <= (tol-level + rounding*cond(F)) (||A|| + |lambda| ||B||) ||x||
// in the user's original pencil (K x = lambda K_G x for buckling), X'BX = I (X'KX = I for buckling), finite values.
#include "engine/e1.h"
#include "engine/alphabet.h"
#include <Spectra/SymGEigsSolver.h>
#include <Spectra/SymGEigsShiftSolver.h>
#include <Spectra/MatOp/DenseSymMatProd.h>
#include <Spectra/MatOp/SparseSymMatProd.h>
#include <Spectra/MatOp/DenseCholesky.h>
#include <Spectra/MatOp/SparseCholesky.h>
#include <Spectra/MatOp/SparseRegularInverse.h>
#include <Spectra/MatOp/SymShiftInvert.h>

using namespace vf;
using namespace Spectra;

// mode: 0 Cholesky, 1 RegularInverse, 2 ShiftInvert, 3 Buckling, 4 Cayley
struct GSubject : Subject
{
    MatL Am, Bm;   // user's pencil: A x = lambda B x  (buckling: K = Bm positive definite, K_G = Am:  K x = lambda K_G x)
    int mode = 0;
    LD sig = 0;
    LD condP = 1, condF = 1, normA = 0, normB = 0;
};
static const GSubject& G(const Subject& s) { return static_cast<const GSubject&>(s); }

template <typename Scalar, class OP>
static uint64_t probe_op(const OP& op, long n)
{
    Eigen::Matrix<Scalar, -1, 1> x(n), y(n);
    for (long i = 0; i < n; i++) x[i] = Scalar(1) / Scalar(i + 2);
    op.raw_apply(x.data(), y.data());
    Fnv h;
    hash_raw(h, y);
    return h.h;
}
static Eigen::SparseMatrix<double> sp(const MatL& M)
{
    Eigen::SparseMatrix<double> S = Eigen::MatrixXd(M.cast<double>()).sparseView();
    S.makeCompressed();
    return S;
}

struct KCholDense
{
    static constexpr bool sweep = true;
    using Op = Counted<DenseSymMatProd<double>>;
    using BOp = DenseCholesky<double>;
    using Solver = SymGEigsSolver<Op, BOp, GEigsMode::Cholesky>;
    Eigen::MatrixXd A, B;
    Op op;
    BOp bop;
    explicit KCholDense(const Subject& S) : A(G(S).Am.cast<double>()), B(G(S).Bm.cast<double>()), op(A), bop(B) {}
    std::unique_ptr<Solver> make(const Subject& S) { return std::make_unique<Solver>(op, bop, S.nev, S.ncv); }
    uint64_t probe() const { return probe_op<double>(op, A.rows()); }
    static std::string name() { return "SymGEigsSolver<Cholesky,dense>"; }
};
struct KCholSparse
{
    static constexpr bool sweep = false;
    using Op = Counted<SparseSymMatProd<double>>;
    using BOp = SparseCholesky<double>;
    using Solver = SymGEigsSolver<Op, BOp, GEigsMode::Cholesky>;
    Eigen::SparseMatrix<double> A, B;
    Op op;
    BOp bop;
    explicit KCholSparse(const Subject& S) : A(sp(G(S).Am)), B(sp(G(S).Bm)), op(A), bop(B) {}
    std::unique_ptr<Solver> make(const Subject& S) { return std::make_unique<Solver>(op, bop, S.nev, S.ncv); }
    uint64_t probe() const { return probe_op<double>(op, A.rows()); }
    static std::string name() { return "SymGEigsSolver<Cholesky,sparse>"; }
};
struct KRegInv
{
    static constexpr bool sweep = false;
    using Op = Counted<SparseSymMatProd<double>>;
    using BOp = SparseRegularInverse<double>;
    using Solver = SymGEigsSolver<Op, BOp, GEigsMode::RegularInverse>;
    Eigen::SparseMatrix<double> A, B;
    Op op;
    BOp bop;
    explicit KRegInv(const Subject& S) : A(sp(G(S).Am)), B(sp(G(S).Bm)), op(A), bop(B) {}
    std::unique_ptr<Solver> make(const Subject& S) { return std::make_unique<Solver>(op, bop, S.nev, S.ncv); }
    uint64_t probe() const { return probe_op<double>(op, A.rows()); }
    static std::string name() { return "SymGEigsSolver<RegularInverse,sparse>"; }
};
template <GEigsMode Mode>
struct KShiftDense
{
    static constexpr bool sweep = true;
    using SI = SymShiftInvert<double, Eigen::Dense, Eigen::Dense>;
    using Op = Counted<SI>;
    using BOp = DenseSymMatProd<double>;
    using Solver = SymGEigsShiftSolver<Op, BOp, Mode>;
    Eigen::MatrixXd A, B;  // operator (first - sigma * second); B operator = the positive definite matrix
    Op op;
    BOp bop;
    // buckling: the shift-invert operator is (K - sigma K_G)^{-1} and the B operator is K
    explicit KShiftDense(const Subject& S) :
        A((Mode == GEigsMode::Buckling ? G(S).Bm : G(S).Am).cast<double>()), B((Mode == GEigsMode::Buckling ? G(S).Am : G(S).Bm).cast<double>()), op(A, B), bop(Mode == GEigsMode::Buckling ? A : B)
    {}
    std::unique_ptr<Solver> make(const Subject& S) { return std::make_unique<Solver>(op, bop, S.nev, S.ncv, double(G(S).sig)); }
    uint64_t probe() const { return probe_op<double>(op, A.rows()); }
    static std::string name() { return std::string("SymGEigsShiftSolver<") + (Mode == GEigsMode::ShiftInvert ? "ShiftInvert" : Mode == GEigsMode::Buckling ? "Buckling" : "Cayley") + ",dense>"; }
};
struct KShiftSparse
{
    static constexpr bool sweep = false;
    using SI = SymShiftInvert<double, Eigen::Sparse, Eigen::Sparse>;
    using Op = Counted<SI>;
    using BOp = SparseSymMatProd<double>;
    using Solver = SymGEigsShiftSolver<Op, BOp, GEigsMode::ShiftInvert>;
    Eigen::SparseMatrix<double> A, B;
    Op op;
    BOp bop;
    explicit KShiftSparse(const Subject& S) : A(sp(G(S).Am)), B(sp(G(S).Bm)), op(A, B), bop(B) {}
    std::unique_ptr<Solver> make(const Subject& S) { return std::make_unique<Solver>(op, bop, S.nev, S.ncv, double(G(S).sig)); }
    uint64_t probe() const { return probe_op<double>(op, A.rows()); }
    static std::string name() { return "SymGEigsShiftSolver<ShiftInvert,sparse>"; }
};

// mixed triangles: A given by its lower triangle only, B by its upper triangle only (the other triangles are not stored)
static Eigen::SparseMatrix<double> sp_tri(const MatL& M, bool lower)
{
    const int n = M.rows();
    std::vector<Eigen::Triplet<double>> t;
    for (int i = 0; i < n; i++)
        for (int j = 0; j < n; j++)
            if ((lower ? i >= j : i <= j) && M(i, j) != 0) t.emplace_back(i, j, double(M(i, j)));
    Eigen::SparseMatrix<double> S(n, n);
    S.setFromTriplets(t.begin(), t.end());
    S.makeCompressed();
    return S;
}
struct KShiftSparseMixed
{
    static constexpr bool sweep = false;
    using SI = SymShiftInvert<double, Eigen::Sparse, Eigen::Sparse, Eigen::Lower, Eigen::Upper>;
    using Op = Counted<SI>;
    using BOp = SparseSymMatProd<double, Eigen::Upper>;
    using Solver = SymGEigsShiftSolver<Op, BOp, GEigsMode::ShiftInvert>;
    Eigen::SparseMatrix<double> A, B;
    Op op;
    BOp bop;
    explicit KShiftSparseMixed(const Subject& S) : A(sp_tri(G(S).Am, true)), B(sp_tri(G(S).Bm, false)), op(A, B), bop(B) {}
    std::unique_ptr<Solver> make(const Subject& S) { return std::make_unique<Solver>(op, bop, S.nev, S.ncv, double(G(S).sig)); }
    uint64_t probe() const { return probe_op<double>(op, A.rows()); }
    static std::string name() { return "SymGEigsShiftSolver<ShiftInvert,sparse Lower/Upper triangles only>"; }
};

static int DEPTH = 3;
static bool THOROUGH = false;
static std::string PROP = "C03";
static const SortRule SYM_RULES[5] = {SortRule::LargestMagn, SortRule::LargestAlge, SortRule::SmallestMagn, SortRule::SmallestAlge, SortRule::BothEnds};
static const SortRule SYM_SORT[4] = {SortRule::LargestAlge, SortRule::LargestMagn, SortRule::SmallestAlge, SortRule::SmallestMagn};

// the C03 oracle on one observation
static void oracle_pencil(const GSubject& S, const OpDesc& op, const Obs& o, Reporter& R)
{
    Local& L = R.L;
    // pairs = the values with their columns; every returned column takes part in the orthonormality clause, also when the
    // accessor hands back more columns than values (the count mismatch itself is C05's clause)
    const long k = std::min<long>(o.evals.size(), o.evecs.cols()), kc = o.evecs.cols();
    if (kc == 0) return;
    const LD u = S.eps, eps23 = std::pow(u, LD(2) / 3);
    const MatL X = o.evecs.real();
    if (!all_finite(X) || !all_finite(o.evals)) { R.v("nonfinite", "NaN/Inf in the returned pairs"); return; }
    // pencil in which eigenvalues are reported: A x = lambda B x, buckling: K x = lambda K_G x
    const MatL& Lhs = S.mode == 3 ? S.Bm : S.Am;
    const MatL& Rhs = S.mode == 3 ? S.Am : S.Bm;
    const MatL& P = S.Bm;  // positive definite matrix of the pencil (B, resp. K)
    const LD nL = fro(Lhs), nR = fro(Rhs);
    L.count("pairs_checked", k);
    for (long i = 0; i < k; i++)
    {
        const LD lam = o.evals[i].real();
        const VecL x = X.col(i);
        const LD r = (Lhs * x - lam * (Rhs * x)).norm();
        LD amp = 1;
        if (S.mode >= 3 && S.sig != 0) amp = std::max<LD>(1, std::abs(lam / S.sig));
        const LD scale = (nL + (std::abs(lam) + std::abs(S.sig)) * nR) * x.norm();
        const LD bound = (op.tol * amp + 1e3L * u * S.condF) * S.condP * scale + op.tol * eps23 * S.condP * (nL + nR) * x.norm();
        L.ratio("pencil_residual", r / bound);
        if (!(r <= bound)) R.v("pencil-residual", "pair " + num(i) + " lambda=" + gnum(lam) + " ||A x - lambda B x||=" + gnum(r) + " bound=" + gnum(bound) + " info=" + info_name(o.info));
    }
    const LD g = maxabs(MatL(X.transpose() * P * X - MatL::Identity(kc, kc))), gb = 1e4L * u * S.condP;
    L.ratio("B_orthonormal", g / gb);
    if (!(g <= gb)) R.v("B-orthonormal", "max|X'PX - I|=" + gnum(g) + " bound=" + gnum(gb));
}

template <class K>
static void explore(GSubject S, int nev, int ncv, int rot, Local& L, const std::string& replay)
{
    S.nev = nev;
    S.ncv = ncv;
    S.eps = LD(std::numeric_limits<double>::epsilon());
    S.key = K::name() + "|" + S.key + "|nev=" + num(nev) + ",ncv=" + num(ncv) + (S.mode >= 2 ? ",sigma=" + std::string(gnum(S.sig)) : "");
    L.count("subjects");
    const SortRule r0 = SYM_RULES[rot % 5], r1 = SYM_RULES[(rot + 2) % 5];
    std::vector<OpDesc> ops;
    ops.push_back(op_init0());
    ops.push_back(op_initv(1));
    ops.push_back(op_initv(2));
    ops.push_back(op_compute(r0, THOROUGH ? 1000 : 300, 1e-10L, SYM_SORT[rot % 4]));
    ops.push_back(op_compute(r1, 1, 1e-6L, SYM_SORT[(rot + 1) % 4]));
    ops.push_back(op_compute(r0, 0, 1e-10L, SYM_SORT[(rot + 2) % 4]));
    if (PROP == "C06") ops.push_back(op_share(1, r0, THOROUGH ? 1000 : 300, 1e-10L, SYM_SORT[rot % 4]));
    // an earlier compute() that throws at its very end (sorting rule the solver does not support)
    if (PROP == "C06") ops.push_back(op_compute(r0, 5, 1e-10L, SortRule::LargestImag));
    if (PROP != "C03")
    {
        // C05 / C06 for the generalized solvers: the shared bookkeeping / rerun oracles of engine/e1.h
        try
        {
            S.pencil = true;
            PropOracle<K> po(PROP, S, ops, L, replay);
            Explorer<K> ex{S, ops, PROP == "C06" ? DEPTH - 1 : DEPTH, L};
            ex.tail_pairs = (PROP == "C06");
            ex.oracle = [&](const std::vector<int>& h, const Obs& b, const Obs& a, Inst<K>& inst) { po(h, b, a, inst); };
            ex.nondet = [&](const std::string& c, const std::string& d) { L.violate(S.key + "|" + c, replay, d); };
            ex.run();
        }
        catch (const std::invalid_argument&) { L.count("subject_rejected_by_operator"); }
        return;
    }
    try
    {
        Explorer<K> ex{S, ops, DEPTH, L};
        ex.oracle = [&](const std::vector<int>& h, const Obs& before, const Obs& o, Inst<K>& inst) {
            Reporter R{L, S.key + "|" + hist_name(ops, h), replay};
            L.evaluations++;
            if (o.threw)
            {
                L.count("op_threw_" + o.extype);
                if (!o.documented_exception()) R.v("exception-type", o.extype + ": " + o.exwhat);
            }
            OpDesc last;
            bool any = false;
            for (int x : h) if (ops[x].type == OP_COMPUTE) { last = ops[x]; any = true; }
            if (!any) return;
            if (o.evals.size() > 0)
            {
                Fnv f; f.str(S.key); f.pod(o.bits);
                L.distinct.insert(f.h);
            }
            oracle_pencil(S, last, o, R);
            if (o.bad_calls) R.v("operator-args", o.bad_msg);
        };
        ex.nondet = [&](const std::string& c, const std::string& d) { L.violate(S.key + "|" + c, replay, d); };
        ex.run();
        if (K::sweep)
        {
            // depth-2 sweep: init(v); compute(rule, maxit, tol) over all start vectors x rules x maxit x tol
            static const long MAXIT[4] = {0, 1, 3, 300};
            const LD TOL[3] = {4 * S.eps, 1e-10L, 1e-2L};
            for (size_t vi = 0; vi <= S.starts.size(); vi++)
                for (int r = 0; r < 5; r++)
                    for (int m = 0; m < 4; m++)
                        for (int t = 0; t < 3; t++)
                        {
                            Inst<K> inst(S);
                            L.traces++;
                            OpDesc iv = vi < S.starts.size() ? op_initv(int(vi)) : op_init0();
                            Obs a = inst.apply(iv);
                            if (a.threw) { L.count("sweep_init_threw"); break; }
                            OpDesc c = op_compute(SYM_RULES[r], MAXIT[m], TOL[t], SYM_SORT[(r + m + t) % 4]);
                            Obs b = inst.apply(c);
                            L.transitions += 2;
                            L.evaluations++;
                            Reporter R{L, S.key + "|" + iv.name() + ";" + c.name(), replay};
                            if (b.threw) { L.count("op_threw_" + b.extype); if (!b.documented_exception()) R.v("exception-type", b.extype + ": " + b.exwhat); continue; }
                            oracle_pencil(S, c, b, R);
                        }
        }
    }
    catch (const std::invalid_argument& e)
    {
        L.count("subject_rejected_by_operator");
    }
}

static MatL spd_B(int n, int which)
{
    MatL B = MatL::Identity(n, n);
    if (which == 1) for (int i = 0; i < n; i++) B(i, i) = i + 1;
    else if (which == 2) for (int i = 0; i < n; i++) { B(i, i) = 4; if (i + 1 < n) B(i, i + 1) = B(i + 1, i) = 1; }
    else if (which == 3) for (int i = 0; i < n; i++) B(i, i) = std::pow(LD(10), -4 * LD(i) / (n - 1));
    else if (which == 4) for (int i = 0; i < n; i++) B(i, i) = std::pow(LD(10), -8 * LD(i) / (n - 1));
    else if (which >= 10)
    {
        // L L' for the unit lower-triangular L over {0,1} coded by which-10
        MatL Lm = MatL::Identity(n, n);
        int code = which - 10;
        for (int j = 0; j < n; j++)
            for (int i = j + 1; i < n; i++) { Lm(i, j) = code & 1; code >>= 1; }
        B = Lm * Lm.transpose();
    }
    return B;
}

static void run_pencil(const MatL& A, const MatL& B, const std::string& desc, uint64_t idx, int kinds, Local& L, const std::string& replay)
{
    const int n = A.rows();
    GSubject base;
    base.Am = A;
    base.Bm = B;
    base.A = A.cast<CL>();
    base.n = n;
    base.hermitian = true;
    base.key = desc;
    base.normA = fro(A);
    base.normB = fro(B);
    Eigen::SelfAdjointEigenSolver<MatL> eb(B);
    base.condP = eb.eigenvalues()[n - 1] / eb.eigenvalues()[0];
    base.condF = base.condP;
    Eigen::GeneralizedSelfAdjointEigenSolver<MatL> ges(A, B);
    const VecL lam = ges.eigenvalues();
    const MatL Q = ges.eigenvectors();
    base.ref = lam.cast<CL>();
    VecCL v(n);
    v.setZero(); v[0] = 1; base.starts.push_back(v);
    for (int i = 0; i < n; i++) v[i] = i + 1; base.starts.push_back(v);
    base.starts.push_back((Q.col(0) + Q.col(1)).cast<CL>());  // two-dimensional invariant subspace of the pencil
    base.starts.push_back(Q.col(n - 1).cast<CL>());           // eigenvector: immediate breakdown
    int c = 0;
    for (auto cfgp : cfg_sym(n))
    {
        const int rot = int((idx + c++) % 20);
        if (kinds & 1) { GSubject s = base; s.mode = 0; explore<KCholDense>(s, cfgp.first, cfgp.second, rot, L, replay); }
        if (kinds & 2) { GSubject s = base; s.mode = 0; explore<KCholSparse>(s, cfgp.first, cfgp.second, rot + 1, L, replay); }
        if (kinds & 4) { GSubject s = base; s.mode = 1; s.condF = s.condP * s.condP; explore<KRegInv>(s, cfgp.first, cfgp.second, rot + 2, L, replay); }
        if (kinds & (8 | 16 | 32 | 64 | 128))
            for (LD sg : {LD(0.3L), LD(-0.3L), LD(1.2345L)})
            {
                if (!THOROUGH && sg < 0) continue;
                // shift-invert / Cayley: A - sigma B
                MatL F = A - sg * B;
                Eigen::FullPivLU<MatL> lu(F);
                LD md = std::numeric_limits<LD>::infinity();
                for (int i = 0; i < n; i++) md = std::min(md, std::abs(lam[i] - sg));
                if (lu.isInvertible() && md > 1e-3L && fro(F) * fro(MatL(lu.inverse())) < 1e6L)
                {
                    GSubject s = base;
                    s.sig = sg;
                    s.condF = fro(F) * fro(MatL(lu.inverse()));
                    if (kinds & 8) { s.mode = 2; explore<KShiftDense<GEigsMode::ShiftInvert>>(s, cfgp.first, cfgp.second, rot + 3, L, replay); }
                    if (kinds & 16) { s.mode = 4; explore<KShiftDense<GEigsMode::Cayley>>(s, cfgp.first, cfgp.second, rot + 4, L, replay); }
                    if (kinds & 64) { s.mode = 2; explore<KShiftSparse>(s, cfgp.first, cfgp.second, rot + 1, L, replay); }
                    if (kinds & 128) { s.mode = 2; explore<KShiftSparseMixed>(s, cfgp.first, cfgp.second, rot + 2, L, replay); }
                }
                else L.count("shift_skipped_premise");
                // buckling: K = B, K_G = A must be nonsingular for finite eigenvalues; operator (K - sigma K_G)^{-1} K
                if (kinds & 32)
                {
                    MatL Fb = B - sg * A;
                    Eigen::FullPivLU<MatL> lub(Fb), luA(A);
                    if (lub.isInvertible() && luA.isInvertible() && fro(Fb) * fro(MatL(lub.inverse())) < 1e6L && fro(A) * fro(MatL(luA.inverse())) < 1e4L)
                    {
                        GSubject s = base;
                        s.mode = 3;
                        s.sig = sg;
                        s.condF = fro(Fb) * fro(MatL(lub.inverse()));
                        // reference eigenvalues of K x = lambda K_G x are not needed by the oracle
                        explore<KShiftDense<GEigsMode::Buckling>>(s, cfgp.first, cfgp.second, rot + 5, L, replay);
                    }
                    else L.count("shift_skipped_premise");
                }
            }
    }
}

int main(int argc, char** argv)
{
    Config cfg = parse_args(argc, argv, 240, 1500);
    for (int i = 1; i < argc; i++)
        if (std::string(argv[i]) == "--prop" && i + 1 < argc) PROP = argv[i + 1];
    Runner R(PROP, cfg);
    const bool q = cfg.quick();
    THOROUGH = !q;
    DEPTH = q ? 3 : 4;
    if (const char* d = getenv("VERIF_DEPTH")) DEPTH = atoi(d);
    const int ALL = 255;
    // B catalogue for n = 3: I, diag(1,2,3), tridiag(1,4,1), and the 8 L L'
    std::vector<int> bcat3 = {0, 1, 2};
    for (int c = 0; c < 8; c++) bcat3.push_back(10 + c);
    R.run("pencil3", sint_count(3, 3) * bcat3.size(), [&](uint64_t idx, Local& L) {
        const uint64_t ai = idx % sint_count(3, 3);
        const int bi = bcat3[idx / sint_count(3, 3)];
        if (q && (ai + idx / sint_count(3, 3)) % 6 != 0) { L.count("skipped_quick"); return; }
        int kinds = 1 | 8;
        if (ai % 5 == 0) kinds |= 16 | 32;
        if (ai % 11 == 0) kinds = ALL;
        run_pencil(sint_get(3, D3(), ai), spd_B(3, bi), "sint3:" + num(ai) + ":B" + num(bi), idx, kinds, L, "pencil3#" + num(idx));
    });
    for (int n : {5, 6})
    {
        std::vector<int> bcat = {1, 2, 3, 4};
        R.run("struct" + num(n), uint64_t(sstruct_count(n)) * bcat.size(), [&, n, bcat](uint64_t idx, Local& L) {
            const int s = idx % sstruct_count(n), bi = bcat[idx / sstruct_count(n)];
            if (q && n == 6 && bi == 4) { L.count("skipped_quick"); return; }
            std::string nm;
            MatL A = sstruct_get(n, s, &nm);
            run_pencil(A, spd_B(n, bi), "struct" + num(n) + ":" + nm + ":B" + num(bi), idx, q && n == 6 ? (1 | 4 | 8 | 16 | 32 | 128) : ALL, L, "struct" + num(n) + "#" + num(idx));
        });
    }
    return R.finish("E1 history search depth " + num(DEPTH) + " over {init(), init(v1), init(v2), compute x3} + depth-2 sweep init(v);compute(rule,maxit,tol) for the dense kinds, per (pencil, mode/storage kind, every legal nev/ncv, shift); non-trivial = compute returned >= 1 pair",
                    {"pencil residual bound (tol*max(1,|lambda/sigma|) + 1e3*eps*cond(F)) * cond(P) * (||A|| + (|lambda|+|sigma|)||B||) ||x||, F = the factorized matrix (B or A - sigma B), P = the positive definite matrix",
                     "B-orthonormality to 1e4*eps*cond(P); shifts are kept when |lambda_j - sigma| > 1e-3 and cond(F) < 1e6; buckling subjects need a nonsingular K_G",
                     "reference generalized spectrum from Eigen::GeneralizedSelfAdjointEigenSolver in long double (used for start vectors and shift premises)"});
}

// C20 (b) - free-running pass of the same bodies under ThreadSanitizer: 2..16 real threads, repeated launches, no
// scheduler.  Any ThreadSanitizer report makes the process exit non-zero (the driver reports it as a violation); results
// are also compared bit for bit with the sequential runs.  This pass is the race *detector*: the cooperative scheduler's
// hand-offs are happens-before edges that would hide unsynchronised accesses from the sanitizer.
#include "engine/common.h"
#include "engine/c20_bodies.h"
#include <thread>

using namespace vf;

int main(int argc, char** argv)
{
    Config cfg = parse_args(argc, argv, 200, 900);
    Runner R("C20", cfg);
    const bool q = cfg.quick();
    auto B = c20::bodies();
    const int rounds = q ? 6 : 40;
    // one section index per body; bodies run one after another (each launches its own threads)
    Local& L = R.total;
    for (size_t b = 0; b < B.size(); b++)
    {
        if (!cfg.only.empty() && cfg.only != "free#" + num(b)) continue;
        const c20::Body& body = B[b];
        for (int T : {2, 4, 8, 16})
        {
            std::vector<uint64_t> ref(T);
            {
                c20::Shared sh;
                for (int t = 0; t < T; t++) ref[t] = body.run(t, sh);
            }
            uint64_t bad = 0;
            for (int r = 0; r < rounds && !R.deadline_hit(); r++)
            {
                c20::Shared sh;
                std::vector<uint64_t> res(T, 0);
                std::vector<std::thread> th;
                for (int t = 0; t < T; t++) th.emplace_back([&, t]() { res[t] = body.run(t, sh); });
                for (auto& x : th) x.join();
                L.evaluations++;
                L.traces++;
                for (int t = 0; t < T; t++) if (res[t] != ref[t]) bad++;
            }
            Fnv f; f.str(body.name); f.pod(T);
            L.states.insert(f.h);
            L.distinct.insert(f.h);
            L.sample("{\"body\": " + jstr(body.name) + ", \"threads\": " + num(T) + ", \"rounds\": " + num(rounds) + "}", 4);
            if (bad) L.violate("C20|" + body.name + "|T=" + num(T) + "|free-running-result-differs", "free#" + num(b), num(bad) + " thread results differ from the sequential run");
        }
    }
    return R.finish("free-running launches of every body with 2,4,8,16 threads x " + num(rounds) + " rounds under ThreadSanitizer; a sanitizer report ends the process with a non-zero status",
                    {"TSAN_OPTIONS=halt_on_error=0 exitcode=66: any data race reported makes the harness exit 66"});
}

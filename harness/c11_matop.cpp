// C11 (part 1) - the single-matrix operation wrappers compute the documented operator in every template configuration.
// E2 over the full cross product of template options: Scalar {float,double,long double (dense)} x Uplo {Lower,Upper}
// x Flags {ColMajor,RowMajor} x StorageIndex {int,long} (sparse), for
//   DenseSymMatProd DenseHermMatProd DenseGenMatProd SparseSymMatProd SparseHermMatProd SparseGenMatProd
//   DenseSymShiftSolve SparseSymShiftSolve DenseGenRealShiftSolve SparseGenRealShiftSolve
//   DenseGenComplexShiftSolve SparseGenComplexShiftSolve DenseCholesky SparseCholesky SparseRegularInverse
// (SymShiftInvert and the composite operators of the generalized solvers are in c11_shiftinv.cpp.)
// Inputs: ALL symmetric 3x3 matrices over {-1,0,1} (shifted / made positive definite as the wrapper requires), ALL
// general 3x3 matrices over {-1,0,1} (every 9th in the quick tier), structured matrices of every size 1..6; shifts
// {0.37, -1.2345, 1e-9 (tiny non-zero diagonal of A - sigma I for matrices with zero diagonal entries: pivoting matters)}; the matrix handed over as a plain object, a block of a larger matrix, a Map and an expression.
// Oracle: the matrix of the operator (applied to every e_i) against a long double dense reference built from the
// FULL symmetric matrix; backward error for solves; metamorphic triangle test: the triangle the wrapper must not read
// is overwritten with unrelated numbers and every output must stay bit-identical.
#include "engine/common.h"
#include "engine/oracle.h"
#include "engine/alphabet.h"
#include <Eigen/Sparse>
#include <Spectra/MatOp/DenseSymMatProd.h>
#include <Spectra/MatOp/DenseHermMatProd.h>
#include <Spectra/MatOp/DenseGenMatProd.h>
#include <Spectra/MatOp/SparseSymMatProd.h>
#include <Spectra/MatOp/SparseHermMatProd.h>
#include <Spectra/MatOp/SparseGenMatProd.h>
#include <Spectra/MatOp/DenseSymShiftSolve.h>
#include <Spectra/MatOp/SparseSymShiftSolve.h>
#include <Spectra/MatOp/DenseGenRealShiftSolve.h>
#include <Spectra/MatOp/SparseGenRealShiftSolve.h>
#include <Spectra/MatOp/DenseGenComplexShiftSolve.h>
#include <Spectra/MatOp/SparseGenComplexShiftSolve.h>
#include <Spectra/MatOp/DenseCholesky.h>
#include <Spectra/MatOp/SparseCholesky.h>
#include <Spectra/MatOp/SparseRegularInverse.h>

using namespace vf;
using namespace Spectra;

template <typename S> struct TN;
template <> struct TN<float> { static const char* n() { return "float"; } };
template <> struct TN<double> { static const char* n() { return "double"; } };
template <> struct TN<long double> { static const char* n() { return "longdouble"; } };
template <> struct TN<std::complex<float>> { static const char* n() { return "cfloat"; } };
template <> struct TN<std::complex<double>> { static const char* n() { return "cdouble"; } };
template <> struct TN<int> { static const char* n() { return "int"; } };
template <> struct TN<long> { static const char* n() { return "long"; } };

template <typename S>
static S from_cl(const CL& v)
{
    using R = typename Eigen::NumTraits<S>::Real;
    if constexpr (Eigen::NumTraits<S>::IsComplex) return S(R(v.real()), R(v.imag()));
    else return S(R(v.real()));
}
template <typename S> static LD eps_of() { return LD(std::numeric_limits<typename Eigen::NumTraits<S>::Real>::epsilon()); }

struct Case
{
    MatCL A;          // the full (symmetric / Hermitian / general) matrix, exact
    std::string desc, replay;
};

// dense matrix in the requested storage order holding triangle `uplo` of A (the other strict triangle = junk if poison)
template <typename S, int Flags>
static Eigen::Matrix<S, -1, -1, Flags> dense_tri(const MatCL& A, int uplo, bool poison)
{
    const int n = A.rows();
    Eigen::Matrix<S, -1, -1, Flags> M(n, n);
    for (int i = 0; i < n; i++)
        for (int j = 0; j < n; j++)
        {
            const bool used = uplo == 0 || (uplo == Eigen::Lower ? i >= j : i <= j);
            M(i, j) = (used || !poison) ? from_cl<S>(A(i, j)) : from_cl<S>(CL(77.5L + i - 2 * j, i == j ? 0 : 3.25L));
        }
    return M;
}
template <typename S, int Flags, typename Idx>
static Eigen::SparseMatrix<S, Flags, Idx> sparse_tri(const MatCL& A, int uplo, int content)
{
    // content: 0 = full symmetric matrix stored, 1 = only the used triangle stored, 2 = other triangle holds junk
    const int n = A.rows();
    std::vector<Eigen::Triplet<S, Idx>> t;
    for (int i = 0; i < n; i++)
        for (int j = 0; j < n; j++)
        {
            const bool used = uplo == 0 || (uplo == Eigen::Lower ? i >= j : i <= j);
            if (used || content == 0) { if (A(i, j) != CL(0)) t.emplace_back(i, j, from_cl<S>(A(i, j))); }
            else if (content == 2) t.emplace_back(i, j, from_cl<S>(CL(77.5L + i - 2 * j, 3.25L)));
        }
    Eigen::SparseMatrix<S, Flags, Idx> M(n, n);
    M.setFromTriplets(t.begin(), t.end());
    M.makeCompressed();
    return M;
}

// matrix of an operator: columns op(e_i); `fn` applies it
template <typename S, class F>
static Eigen::Matrix<S, -1, -1> op_matrix(int n, F&& fn)
{
    Eigen::Matrix<S, -1, -1> R(n, n);
    Eigen::Matrix<S, -1, 1> x(n), y(n);
    for (int i = 0; i < n; i++)
    {
        x.setZero();
        x[i] = S(1);
        y.setConstant(S(12345));
        fn(x.data(), y.data());
        R.col(i) = y;
    }
    return R;
}
template <typename M1, typename M2>
static bool bits_equal(const M1& a, const M2& b)
{
    if (a.rows() != b.rows() || a.cols() != b.cols()) return false;
    for (Eigen::Index j = 0; j < a.cols(); j++)
        for (Eigen::Index i = 0; i < a.rows(); i++)
            if (std::memcmp(&a(i, j), &b(i, j), sizeof(typename M1::Scalar)) != 0) return false;
    return true;
}

struct Ctx
{
    Local& L;
    const Case& c;
    std::string cfg;
    Ctx(Local& L_, const Case& c_, const std::string& cfg_) : L(L_), c(c_), cfg(cfg_)
    {
        Fnv h;
        h.str(cfg);
        h.str(c.desc);
        L.distinct.insert(h.h);
        L.sample("{\"configuration\": " + jstr(cfg) + ", \"input\": " + jstr(c.desc) + "}", 4);
    }
    void v(const std::string& clause, const std::string& d) { L.violate(cfg + "|" + c.desc + "|" + clause, c.replay, d); }
};

template <typename S, typename Mt>
static void cmp_product(Ctx& X, const Mt& got, const MatCL& ref, const std::string& how)
{
    const int n = ref.rows();
    const LD err = maxabs(MatCL(got.template cast<CL>() - ref)), bound = 50 * n * eps_of<S>() * std::max(maxabs(ref), LD(1e-300L));
    X.L.ratio("product", err / bound);
    X.L.evaluations++;
    if (!(err <= bound)) X.v("product:" + how, "max|op - A|=" + gnum(err) + " bound=" + gnum(bound));
}
template <typename S, typename Mt>
static void cmp_solve(Ctx& X, const Mt& got, const MatCL& Mshift, const std::string& how, LD extra = 1)
{
    // backward error: (A - sigma I) * op = I
    const int n = Mshift.rows();
    MatCL G = got.template cast<CL>();
    X.L.evaluations++;
    if (!all_finite(G)) { X.v("solve-nonfinite:" + how, "NaN/Inf in the solution"); return; }
    const LD err = maxabs(MatCL(Mshift * G - MatCL::Identity(n, n))), bound = 1e3L * n * eps_of<S>() * (fro(Mshift) * fro(G) + 1) * extra;
    X.L.ratio("solve", err / bound);
    if (!(err <= bound)) X.v("solve:" + how, "max|(A-sigma I) op - I|=" + gnum(err) + " bound=" + gnum(bound));
}

// ---------------------------------------------------------------- dense symmetric / Hermitian product + shift solve
template <typename S, int Uplo, int Flags, template <typename, int, int> class Prod>
static void t_dense_symprod(const Case& c, Local& L, const char* cls)
{
    using Mat = Eigen::Matrix<S, -1, -1, Flags>;
    const int n = c.A.rows();
    Ctx X{L, c, std::string(cls) + "<" + TN<S>::n() + "," + (Uplo == Eigen::Lower ? "Lower" : "Upper") + "," + (Flags == Eigen::RowMajor ? "RowMajor" : "ColMajor") + ">"};
    Mat Mfull = dense_tri<S, Flags>(c.A, Uplo, false), Mpois = dense_tri<S, Flags>(c.A, Uplo, true);
    // plain object
    Prod<S, Uplo, Flags> op(Mfull);
    auto R0 = op_matrix<S>(n, [&](const S* x, S* y) { op.perform_op(x, y); });
    cmp_product<S>(X, R0, c.A, "plain");
    if (op.rows() != n || op.cols() != n) X.v("dims", "rows()/cols() wrong");
    // unused triangle overwritten: bit-identical
    Prod<S, Uplo, Flags> opp(Mpois);
    auto R1 = op_matrix<S>(n, [&](const S* x, S* y) { opp.perform_op(x, y); });
    if (!bits_equal(R0, R1)) X.v("triangle", "output changed when only the unused triangle was overwritten");
    // block of a larger matrix, Map, expression
    Mat Big = Mat::Constant(n + 3, n + 2, from_cl<S>(CL(-55.25L, 1)));
    Big.block(2, 1, n, n) = Mpois;
    Prod<S, Uplo, Flags> opb(Big.block(2, 1, n, n));
    cmp_product<S>(X, op_matrix<S>(n, [&](const S* x, S* y) { opb.perform_op(x, y); }), c.A, "block");
    Eigen::Map<const Mat> mp(Mpois.data(), n, n);
    Prod<S, Uplo, Flags> opm(mp);
    cmp_product<S>(X, op_matrix<S>(n, [&](const S* x, S* y) { opm.perform_op(x, y); }), c.A, "map");
    Prod<S, Uplo, Flags> ope(Mpois * S(2) - Mpois);
    cmp_product<S>(X, op_matrix<S>(n, [&](const S* x, S* y) { ope.perform_op(x, y); }), c.A, "expression");
}
template <typename S, int Uplo, int Flags>
static void t_dense_symshift(const Case& c, Local& L)
{
    using Mat = Eigen::Matrix<S, -1, -1, Flags>;
    const int n = c.A.rows();
    Ctx X{L, c, std::string("DenseSymShiftSolve<") + TN<S>::n() + "," + (Uplo == Eigen::Lower ? "Lower" : "Upper") + "," + (Flags == Eigen::RowMajor ? "RowMajor" : "ColMajor") + ">"};
    Mat Mfull = dense_tri<S, Flags>(c.A, Uplo, false), Mpois = dense_tri<S, Flags>(c.A, Uplo, true);
    for (LD sg : {LD(0.37L), LD(-1.2345L), LD(1e-9L)})
    {
        MatCL Ms = c.A - CL(LD(S(sg))) * MatCL::Identity(n, n);
        Eigen::FullPivLU<MatCL> lu(Ms);
        if (!lu.isInvertible() || fro(Ms) * fro(MatCL(lu.inverse())) > 1e4L) { L.count("skipped_ill_conditioned"); continue; }
        DenseSymShiftSolve<S, Uplo, Flags> op(Mfull), opp(Mpois);
        try
        {
            op.set_shift(S(sg));
            opp.set_shift(S(sg));
        }
        catch (const std::exception& e) { X.v("set_shift-threw", e.what()); continue; }
        auto R0 = op_matrix<S>(n, [&](const S* x, S* y) { op.perform_op(x, y); });
        cmp_solve<S>(X, R0, Ms, "sigma=" + std::string(gnum(sg)));
        auto R1 = op_matrix<S>(n, [&](const S* x, S* y) { opp.perform_op(x, y); });
        if (!bits_equal(R0, R1)) X.v("triangle", "output changed when only the unused triangle was overwritten");
        // a second shift on the same object, then back: the object must follow the latest shift
        try { op.set_shift(S(sg + 1)); }
        catch (const std::invalid_argument&) { L.count("reshift_intermediate_singular"); }  // A - (s+1) I may be exactly singular: a legitimate rejection
        op.set_shift(S(sg));
        auto R2 = op_matrix<S>(n, [&](const S* x, S* y) { op.perform_op(x, y); });
        if (!bits_equal(R0, R2)) X.v("reshift", "set_shift(s); set_shift(s+1); set_shift(s) differs from set_shift(s)");
    }
}
template <typename S, int Flags>
static void t_dense_gen(const Case& c, Local& L)
{
    using Mat = Eigen::Matrix<S, -1, -1, Flags>;
    const int n = c.A.rows();
    const std::string fl = Flags == Eigen::RowMajor ? "RowMajor" : "ColMajor";
    Mat M = dense_tri<S, Flags>(c.A, 0, false);
    {
        Ctx X{L, c, std::string("DenseGenMatProd<") + TN<S>::n() + "," + fl + ">"};
        DenseGenMatProd<S, Flags> op(M);
        cmp_product<S>(X, op_matrix<S>(n, [&](const S* x, S* y) { op.perform_op(x, y); }), c.A, "plain");
        Mat Big = Mat::Constant(n + 2, n + 3, S(9));
        Big.block(1, 2, n, n) = M;
        DenseGenMatProd<S, Flags> opb(Big.block(1, 2, n, n));
        cmp_product<S>(X, op_matrix<S>(n, [&](const S* x, S* y) { opb.perform_op(x, y); }), c.A, "block");
        DenseGenMatProd<S, Flags> ope(M + M - M);
        cmp_product<S>(X, op_matrix<S>(n, [&](const S* x, S* y) { ope.perform_op(x, y); }), c.A, "expression");
    }
    for (LD sg : {LD(0.37L), LD(-1.2345L), LD(1e-9L)})
    {
        MatCL Ms = c.A - CL(LD(S(sg))) * MatCL::Identity(n, n);
        Eigen::FullPivLU<MatCL> lu(Ms);
        if (!lu.isInvertible() || fro(Ms) * fro(MatCL(lu.inverse())) > 1e4L) { L.count("skipped_ill_conditioned"); continue; }
        Ctx X{L, c, std::string("DenseGenRealShiftSolve<") + TN<S>::n() + "," + fl + ">"};
        DenseGenRealShiftSolve<S, Flags> op(M);
        try { op.set_shift(S(sg)); }
        catch (const std::exception& e) { X.v("set_shift-threw", e.what()); continue; }
        cmp_solve<S>(X, op_matrix<S>(n, [&](const S* x, S* y) { op.perform_op(x, y); }), Ms, "sigma=" + std::string(gnum(sg)));
    }
    {
        // complex shift: Re[(A - sigma I)^{-1} x]
        const LD sr = 0.37L, si = 0.6L;
        const CL sg{LD(S(sr)), LD(S(si))};
        MatCL Ms = c.A - sg * MatCL::Identity(n, n);
        Eigen::FullPivLU<MatCL> lu(Ms);
        if (lu.isInvertible() && fro(Ms) * fro(MatCL(lu.inverse())) <= 1e4L)
        {
            Ctx X{L, c, std::string("DenseGenComplexShiftSolve<") + TN<S>::n() + "," + fl + ">"};
            DenseGenComplexShiftSolve<S, Flags> op(M);
            try
            {
                op.set_shift(S(sr), S(si));
                auto R = op_matrix<S>(n, [&](const S* x, S* y) { op.perform_op(x, y); });
                MatCL inv = lu.inverse();
                MatCL ref = inv.real().template cast<CL>();
                const LD err = maxabs(MatCL(R.template cast<CL>() - ref)), bound = 1e3L * n * eps_of<S>() * fro(Ms) * fro(inv) * fro(inv);
                L.ratio("complex_solve", err / bound);
                L.evaluations++;
                if (!(err <= bound)) X.v("complex-solve", "max|op - Re inv(A - sigma I)|=" + gnum(err) + " bound=" + gnum(bound));
            }
            catch (const std::exception& e) { X.v("set_shift-threw", e.what()); }
        }
        else L.count("skipped_ill_conditioned");
    }
}
// ---------------------------------------------------------------- sparse wrappers
template <typename S, int Uplo, int Flags, typename Idx, template <typename, int, int, typename> class Prod>
static void t_sparse_symprod(const Case& c, Local& L, const char* cls)
{
    const int n = c.A.rows();
    Ctx X{L, c, std::string(cls) + "<" + TN<S>::n() + "," + (Uplo == Eigen::Lower ? "Lower" : "Upper") + "," + (Flags == Eigen::RowMajor ? "RowMajor" : "ColMajor") + "," + TN<Idx>::n() + ">"};
    auto M0 = sparse_tri<S, Flags, Idx>(c.A, Uplo, 0), M1 = sparse_tri<S, Flags, Idx>(c.A, Uplo, 1), M2 = sparse_tri<S, Flags, Idx>(c.A, Uplo, 2);
    Prod<S, Uplo, Flags, Idx> o0(M0), o1(M1), o2(M2);
    auto R0 = op_matrix<S>(n, [&](const S* x, S* y) { o0.perform_op(x, y); });
    cmp_product<S>(X, R0, c.A, "full-stored");
    auto R1 = op_matrix<S>(n, [&](const S* x, S* y) { o1.perform_op(x, y); });
    auto R2 = op_matrix<S>(n, [&](const S* x, S* y) { o2.perform_op(x, y); });
    cmp_product<S>(X, R1, c.A, "triangle-only");
    if (!bits_equal(R1, R2)) X.v("triangle", "output changed when the unused triangle was filled with other numbers");
    Eigen::Map<const Eigen::SparseMatrix<S, Flags, Idx>> mp(n, n, M2.nonZeros(), M2.outerIndexPtr(), M2.innerIndexPtr(), M2.valuePtr());
    Prod<S, Uplo, Flags, Idx> om(mp);
    cmp_product<S>(X, op_matrix<S>(n, [&](const S* x, S* y) { om.perform_op(x, y); }), c.A, "map");
}
template <typename S, int Uplo, int Flags, typename Idx>
static void t_sparse_symshift(const Case& c, Local& L)
{
    const int n = c.A.rows();
    Ctx X{L, c, std::string("SparseSymShiftSolve<") + TN<S>::n() + "," + (Uplo == Eigen::Lower ? "Lower" : "Upper") + "," + (Flags == Eigen::RowMajor ? "RowMajor" : "ColMajor") + "," + TN<Idx>::n() + ">"};
    auto M1 = sparse_tri<S, Flags, Idx>(c.A, Uplo, 1), M2 = sparse_tri<S, Flags, Idx>(c.A, Uplo, 2);
    for (LD sg : {LD(0.37L), LD(-1.2345L), LD(1e-9L)})
    {
        MatCL Ms = c.A - CL(LD(S(sg))) * MatCL::Identity(n, n);
        Eigen::FullPivLU<MatCL> lu(Ms);
        if (!lu.isInvertible() || fro(Ms) * fro(MatCL(lu.inverse())) > 1e4L) { L.count("skipped_ill_conditioned"); continue; }
        SparseSymShiftSolve<S, Uplo, Flags, Idx> o1(M1), o2(M2);
        try
        {
            o1.set_shift(S(sg));
            o2.set_shift(S(sg));
        }
        catch (const std::exception& e) { X.v("set_shift-threw", e.what()); continue; }
        auto R1 = op_matrix<S>(n, [&](const S* x, S* y) { o1.perform_op(x, y); });
        cmp_solve<S>(X, R1, Ms, "sigma=" + std::string(gnum(sg)));
        auto R2 = op_matrix<S>(n, [&](const S* x, S* y) { o2.perform_op(x, y); });
        if (!bits_equal(R1, R2)) X.v("triangle", "output changed when the unused triangle was filled with other numbers");
    }
}
template <typename S, int Flags, typename Idx>
static void t_sparse_gen(const Case& c, Local& L)
{
    const int n = c.A.rows();
    const std::string sfx = std::string("<") + TN<S>::n() + "," + (Flags == Eigen::RowMajor ? "RowMajor" : "ColMajor") + "," + TN<Idx>::n() + ">";
    auto M = sparse_tri<S, Flags, Idx>(c.A, 0, 0);
    {
        Ctx X{L, c, "SparseGenMatProd" + sfx};
        SparseGenMatProd<S, Flags, Idx> op(M);
        cmp_product<S>(X, op_matrix<S>(n, [&](const S* x, S* y) { op.perform_op(x, y); }), c.A, "plain");
    }
    for (LD sg : {LD(0.37L), LD(-1.2345L), LD(1e-9L)})
    {
        MatCL Ms = c.A - CL(LD(S(sg))) * MatCL::Identity(n, n);
        Eigen::FullPivLU<MatCL> lu(Ms);
        if (!lu.isInvertible() || fro(Ms) * fro(MatCL(lu.inverse())) > 1e4L) { L.count("skipped_ill_conditioned"); continue; }
        Ctx X{L, c, "SparseGenRealShiftSolve" + sfx};
        SparseGenRealShiftSolve<S, Flags, Idx> op(M);
        try { op.set_shift(S(sg)); }
        catch (const std::exception& e) { X.v("set_shift-threw", e.what()); continue; }
        cmp_solve<S>(X, op_matrix<S>(n, [&](const S* x, S* y) { op.perform_op(x, y); }), Ms, "sigma=" + std::string(gnum(sg)));
    }
    {
        const LD sr = 0.37L, si = 0.6L;
        const CL sg{LD(S(sr)), LD(S(si))};
        MatCL Ms = c.A - sg * MatCL::Identity(n, n);
        Eigen::FullPivLU<MatCL> lu(Ms);
        if (lu.isInvertible() && fro(Ms) * fro(MatCL(lu.inverse())) <= 1e4L)
        {
            Ctx X{L, c, "SparseGenComplexShiftSolve" + sfx};
            SparseGenComplexShiftSolve<S, Flags, Idx> op(M);
            try
            {
                op.set_shift(S(sr), S(si));
                auto R = op_matrix<S>(n, [&](const S* x, S* y) { op.perform_op(x, y); });
                MatCL inv = lu.inverse();
                MatCL ref = inv.real().template cast<CL>();
                const LD err = maxabs(MatCL(R.template cast<CL>() - ref)), bound = 1e3L * n * eps_of<S>() * fro(Ms) * fro(inv) * fro(inv);
                L.ratio("complex_solve", err / bound);
                L.evaluations++;
                if (!(err <= bound)) X.v("complex-solve", "max|op - Re inv(A - sigma I)|=" + gnum(err) + " bound=" + gnum(bound));
            }
            catch (const std::exception& e) { X.v("set_shift-threw", e.what()); }
        }
        else L.count("skipped_ill_conditioned");
    }
}
// Cholesky-type wrappers on B = A + 4 I (positive definite for the {-1,0,1} alphabet; diagonally dominant)
template <typename S, class Op>
static void check_cholesky(Ctx& X, Op& op, const MatCL& B)
{
    const int n = B.rows();
    if (op.info() != CompInfo::Successful) { X.v("info", "factorization of a positive definite matrix not Successful"); return; }
    auto W = op_matrix<S>(n, [&](const S* x, S* y) { op.lower_triangular_solve(x, y); });
    auto U = op_matrix<S>(n, [&](const S* x, S* y) { op.upper_triangular_solve(x, y); });
    MatCL Wl = W.template cast<CL>(), Ul = U.template cast<CL>(), Binv = B.inverse();
    const LD u = eps_of<S>(), cb = fro(B) * fro(Binv);
    X.L.evaluations++;
    // inv(L') = inv(L)^H for the same L, and inv(L') inv(L) = inv(B)
    const LD e1 = maxabs(MatCL(Ul - Wl.adjoint())), b1 = 1e3L * n * u * cb * fro(Wl);
    const LD e2 = maxabs(MatCL(Ul * Wl - Binv)), b2 = 1e3L * n * u * cb * fro(Binv);
    X.L.ratio("cholesky_adjoint", e1 / b1);
    X.L.ratio("cholesky_inverse", e2 / b2);
    if (!(e1 <= b1)) X.v("cholesky-adjoint", "upper_triangular_solve is not the adjoint of lower_triangular_solve: " + gnum(e1));
    if (!(e2 <= b2)) X.v("cholesky-inverse", "inv(L') inv(L) != inv(B): " + gnum(e2) + " bound " + gnum(b2));
}
template <typename S, int Uplo, int Flags>
static void t_dense_chol(const Case& c, Local& L)
{
    const int n = c.A.rows();
    MatCL B = c.A + CL(4) * MatCL::Identity(n, n);
    Ctx X{L, c, std::string("DenseCholesky<") + TN<S>::n() + "," + (Uplo == Eigen::Lower ? "Lower" : "Upper") + "," + (Flags == Eigen::RowMajor ? "RowMajor" : "ColMajor") + ">"};
    auto M0 = dense_tri<S, Flags>(B, Uplo, false), M1 = dense_tri<S, Flags>(B, Uplo, true);
    DenseCholesky<S, Uplo, Flags> o0(M0), o1(M1);
    check_cholesky<S>(X, o0, B);
    auto W0 = op_matrix<S>(n, [&](const S* x, S* y) { o0.lower_triangular_solve(x, y); });
    auto W1 = op_matrix<S>(n, [&](const S* x, S* y) { o1.lower_triangular_solve(x, y); });
    if (!bits_equal(W0, W1)) X.v("triangle", "output changed when only the unused triangle was overwritten");
    // dense L is the textbook lower-triangular factor: L * inv(L) e_i = e_i
    Eigen::LLT<MatCL> llt(B);
    MatCL Lm = llt.matrixL();
    const LD e = maxabs(MatCL(Lm * W0.template cast<CL>() - MatCL::Identity(n, n))), b = 1e3L * n * eps_of<S>() * fro(Lm) * fro(W0.template cast<CL>());
    if (!(e <= b)) X.v("dense-L", "lower_triangular_solve is not inv(L) for the Cholesky factor L: " + gnum(e));
}
template <typename S, int Uplo, int Flags, typename Idx>
static void t_sparse_chol(const Case& c, Local& L)
{
    const int n = c.A.rows();
    MatCL B = c.A + CL(4) * MatCL::Identity(n, n);
    const std::string sfx = std::string("<") + TN<S>::n() + "," + (Uplo == Eigen::Lower ? "Lower" : "Upper") + "," + (Flags == Eigen::RowMajor ? "RowMajor" : "ColMajor") + "," + TN<Idx>::n() + ">";
    auto M1 = sparse_tri<S, Flags, Idx>(B, Uplo, 1), M2 = sparse_tri<S, Flags, Idx>(B, Uplo, 2);
    {
        Ctx X{L, c, "SparseCholesky" + sfx};
        SparseCholesky<S, Uplo, Flags, Idx> o1(M1), o2(M2);
        check_cholesky<S>(X, o1, B);
        auto W1 = op_matrix<S>(n, [&](const S* x, S* y) { o1.lower_triangular_solve(x, y); });
        auto W2 = op_matrix<S>(n, [&](const S* x, S* y) { o2.lower_triangular_solve(x, y); });
        if (!bits_equal(W1, W2)) X.v("triangle", "output changed when the unused triangle was filled with other numbers");
    }
    {
        Ctx X{L, c, "SparseRegularInverse" + sfx};
        SparseRegularInverse<S, Uplo, Flags, Idx> o1(M1), o2(M2);
        auto P1 = op_matrix<S>(n, [&](const S* x, S* y) { o1.perform_op(x, y); });
        cmp_product<S>(X, P1, B, "B x");
        auto P2 = op_matrix<S>(n, [&](const S* x, S* y) { o2.perform_op(x, y); });
        if (!bits_equal(P1, P2)) X.v("triangle", "B x changed when the unused triangle was filled with other numbers");
        try
        {
            auto S1 = op_matrix<S>(n, [&](const S* x, S* y) { o1.solve(x, y); });
            auto S2 = op_matrix<S>(n, [&](const S* x, S* y) { o2.solve(x, y); });
            // conjugate gradients to the solver's default tolerance (machine epsilon): allow cond(B) * 1e3
            cmp_solve<S>(X, S1, B, "inv(B) x", fro(B) * fro(MatCL(B.inverse())));
            if (!bits_equal(S1, S2)) X.v("triangle", "inv(B) x changed when the unused triangle was filled with other numbers");
        }
        catch (const std::exception& e) { X.v("solve-threw", e.what()); }
    }
}

// ---------------------------------------------------------------- instantiation lists
template <typename S>
static void all_dense_sym(const Case& c, Local& L)
{
    t_dense_symprod<S, Eigen::Lower, Eigen::ColMajor, DenseSymMatProd>(c, L, "DenseSymMatProd");
    t_dense_symprod<S, Eigen::Upper, Eigen::ColMajor, DenseSymMatProd>(c, L, "DenseSymMatProd");
    t_dense_symprod<S, Eigen::Lower, Eigen::RowMajor, DenseSymMatProd>(c, L, "DenseSymMatProd");
    t_dense_symprod<S, Eigen::Upper, Eigen::RowMajor, DenseSymMatProd>(c, L, "DenseSymMatProd");
    t_dense_symshift<S, Eigen::Lower, Eigen::ColMajor>(c, L);
    t_dense_symshift<S, Eigen::Upper, Eigen::ColMajor>(c, L);
    t_dense_symshift<S, Eigen::Lower, Eigen::RowMajor>(c, L);
    t_dense_symshift<S, Eigen::Upper, Eigen::RowMajor>(c, L);
    t_dense_chol<S, Eigen::Lower, Eigen::ColMajor>(c, L);
    t_dense_chol<S, Eigen::Upper, Eigen::ColMajor>(c, L);
    t_dense_chol<S, Eigen::Lower, Eigen::RowMajor>(c, L);
    t_dense_chol<S, Eigen::Upper, Eigen::RowMajor>(c, L);
}
template <typename S>
static void all_dense_herm(const Case& c, Local& L)
{
    t_dense_symprod<S, Eigen::Lower, Eigen::ColMajor, DenseHermMatProd>(c, L, "DenseHermMatProd");
    t_dense_symprod<S, Eigen::Upper, Eigen::ColMajor, DenseHermMatProd>(c, L, "DenseHermMatProd");
    t_dense_symprod<S, Eigen::Lower, Eigen::RowMajor, DenseHermMatProd>(c, L, "DenseHermMatProd");
    t_dense_symprod<S, Eigen::Upper, Eigen::RowMajor, DenseHermMatProd>(c, L, "DenseHermMatProd");
}
template <typename S, typename Idx>
static void all_sparse_sym(const Case& c, Local& L)
{
    t_sparse_symprod<S, Eigen::Lower, Eigen::ColMajor, Idx, SparseSymMatProd>(c, L, "SparseSymMatProd");
    t_sparse_symprod<S, Eigen::Upper, Eigen::ColMajor, Idx, SparseSymMatProd>(c, L, "SparseSymMatProd");
    t_sparse_symprod<S, Eigen::Lower, Eigen::RowMajor, Idx, SparseSymMatProd>(c, L, "SparseSymMatProd");
    t_sparse_symprod<S, Eigen::Upper, Eigen::RowMajor, Idx, SparseSymMatProd>(c, L, "SparseSymMatProd");
    t_sparse_symshift<S, Eigen::Lower, Eigen::ColMajor, Idx>(c, L);
    t_sparse_symshift<S, Eigen::Upper, Eigen::ColMajor, Idx>(c, L);
    t_sparse_symshift<S, Eigen::Lower, Eigen::RowMajor, Idx>(c, L);
    t_sparse_symshift<S, Eigen::Upper, Eigen::RowMajor, Idx>(c, L);
    t_sparse_chol<S, Eigen::Lower, Eigen::ColMajor, Idx>(c, L);
    t_sparse_chol<S, Eigen::Upper, Eigen::ColMajor, Idx>(c, L);
    t_sparse_chol<S, Eigen::Lower, Eigen::RowMajor, Idx>(c, L);
    t_sparse_chol<S, Eigen::Upper, Eigen::RowMajor, Idx>(c, L);
}
template <typename S, typename Idx>
static void all_sparse_herm(const Case& c, Local& L)
{
    t_sparse_symprod<S, Eigen::Lower, Eigen::ColMajor, Idx, SparseHermMatProd>(c, L, "SparseHermMatProd");
    t_sparse_symprod<S, Eigen::Upper, Eigen::ColMajor, Idx, SparseHermMatProd>(c, L, "SparseHermMatProd");
    t_sparse_symprod<S, Eigen::Lower, Eigen::RowMajor, Idx, SparseHermMatProd>(c, L, "SparseHermMatProd");
    t_sparse_symprod<S, Eigen::Upper, Eigen::RowMajor, Idx, SparseHermMatProd>(c, L, "SparseHermMatProd");
}

int main(int argc, char** argv)
{
    Config cfg = parse_args(argc, argv, 240, 900);
    Runner R("C11", cfg);
    const bool q = cfg.quick();
    R.run("sym3", sint_count(3, 3), [&](uint64_t idx, Local& L) {
        Case c{sint_get(3, D3(), idx).cast<CL>(), "sint3:" + num(idx), "sym3#" + num(idx)};
        all_dense_sym<double>(c, L);
        all_dense_sym<float>(c, L);
        all_sparse_sym<double, int>(c, L);
        all_sparse_sym<double, long>(c, L);
        if (!q || idx % 2 == 0)
        {
            all_dense_sym<long double>(c, L);
            all_sparse_sym<float, int>(c, L);
        }
    });
    R.run("herm3", hint_count(3), [&](uint64_t idx, Local& L) {
        (void) q;
        Case c{hint_get(3, idx), "hint3:" + num(idx), "herm3#" + num(idx)};
        all_dense_herm<std::complex<double>>(c, L);
        all_dense_herm<std::complex<float>>(c, L);
        all_sparse_herm<std::complex<double>, int>(c, L);
        all_sparse_herm<std::complex<double>, long>(c, L);
    });
    R.run("gen3", gint_count(3, 3), [&](uint64_t idx, Local& L) {
        (void) q;
        Case c{gint_get(3, D3(), idx).cast<CL>(), "gint3:" + num(idx), "gen3#" + num(idx)};
        t_dense_gen<double, Eigen::ColMajor>(c, L);
        t_dense_gen<double, Eigen::RowMajor>(c, L);
        t_dense_gen<float, Eigen::ColMajor>(c, L);
        t_dense_gen<float, Eigen::RowMajor>(c, L);
        t_sparse_gen<double, Eigen::ColMajor, int>(c, L);
        t_sparse_gen<double, Eigen::RowMajor, int>(c, L);
        t_sparse_gen<double, Eigen::ColMajor, long>(c, L);
        t_sparse_gen<double, Eigen::RowMajor, long>(c, L);
    });
    // every size 1..6: structured symmetric and general matrices
    R.run("sizes", 6 * 4, [&](uint64_t w, Local& L) {
        const int n = int(w) / 4 + 1, kind = int(w) % 4;
        MatL A = MatL::Zero(n, n);
        for (int i = 0; i < n; i++)
            for (int j = 0; j < n; j++)
            {
                if (kind == 0) A(i, j) = (i == j) ? LD(2 + i) : (std::abs(i - j) == 1 ? LD(-1) : LD(0));
                else if (kind == 1) A(i, j) = LD(1) / (1 + i + j);
                else if (kind == 2) A(i, j) = (i == j) ? LD(0) : LD(((i * 3 + j * 5) % 7) - 3) / 4;
                else A(i, j) = LD(std::min(i, j) + 1) * (((i + j) % 2) ? -1 : 1);
            }
        MatL As = (A + A.transpose()) / 2;
        Case cs{As.cast<CL>(), "size" + num(n) + ":sym" + num(kind), "sizes#" + num(w)};
        all_dense_sym<double>(cs, L);
        all_sparse_sym<double, int>(cs, L);
        MatCL H = As.cast<CL>();
        for (int i = 0; i < n; i++)
            for (int j = i + 1; j < n; j++) { H(i, j) += CL(0, LD(0.25) * (i + 1)); H(j, i) = std::conj(H(i, j)); }
        Case ch{H, "size" + num(n) + ":herm" + num(kind), "sizes#" + num(w)};
        all_dense_herm<std::complex<double>>(ch, L);
        all_sparse_herm<std::complex<double>, int>(ch, L);
        MatL G = A;
        for (int i = 0; i < n; i++) G(i, (i + 1) % n) += LD(0.5);
        Case cg{G.cast<CL>(), "size" + num(n) + ":gen" + num(kind), "sizes#" + num(w)};
        t_dense_gen<double, Eigen::ColMajor>(cg, L);
        t_dense_gen<double, Eigen::RowMajor>(cg, L);
        t_sparse_gen<double, Eigen::ColMajor, int>(cg, L);
        t_sparse_gen<double, Eigen::RowMajor, long>(cg, L);
    });
    for (auto& kv : R.total.counters) (void) kv;
    return R.finish("every wrapper class x every template configuration listed above x every input of the alphabets; each operator is applied to every e_i; distinct counted by construction (one (configuration, input) pair each)",
                    {"reference = the full symmetric/Hermitian/general matrix in long double; solves are judged by backward error 1e3*n*eps*(||A-sigma I|| ||X|| + 1)",
                     "B = A + 4 I is used where a positive definite matrix is required; shifted systems with condition number above 1e4 are skipped (counted)",
                     "SparseRegularInverse::solve uses conjugate gradients: allowance multiplied by cond(B)"});
}

// C15 - Davidson solver: Successful means true residuals below tol, unit-norm orthonormal vectors, pairs ordered by the
// selection rule, compute() == nev; returned values are always finite; the same with a caller-supplied search space.
// E1 over histories (depth <= 2) of compute(rule, maxit, tol) / compute_with_guess(G, rule, maxit, tol) on one object, for
//   all symmetric 4x4 matrices over {-1,0,1} + c*diag(1..4), c in {0 (not dominant), 3, 10 (dominant)}   [every k-th in quick]
//   block-diagonal matrices and matrices with an exactly decoupled coordinate / an isolated diagonal entry, n = 5..8
//   every nev in 1..n-1 (small n) and several (initial, maximal) search-space sizes, dense and sparse wrappers,
//   rules {LargestAlge, SmallestAlge, LargestMagn, SmallestMagn}, tol in {1e-4, 1e-8, 1e-12},
//   guesses: coordinate blocks (orthonormal), pair sums e_i+e_j a badly scaled skewed block (full rank, not orthonormal), a block with a repeated column and one with a zero column.
#include "engine/common.h"
#include "engine/oracle.h"
#include "engine/alphabet.h"
#include <Eigen/Sparse>
#include <Spectra/DavidsonSymEigsSolver.h>
#include <Spectra/MatOp/DenseSymMatProd.h>
#include <Spectra/MatOp/SparseSymMatProd.h>

using namespace vf;
using namespace Spectra;

static const SortRule RULES[4] = {SortRule::LargestAlge, SortRule::SmallestAlge, SortRule::LargestMagn, SortRule::SmallestMagn};
static const char* RNAME[4] = {"LA", "SA", "LM", "SM"};
static const double TOLS[3] = {1e-4, 1e-8, 1e-12};

static LD key_of(int rule, LD v)
{
    switch (rule)
    {
        case 0: return -v;
        case 1: return v;
        case 2: return -std::abs(v);
        default: return std::abs(v);
    }
}

template <class Solver>
static void judge(Solver& s, long ret, const MatL& A, int nev, int rule, double tol, const std::string& key, const std::string& replay, Local& L)
{
    auto viol = [&](const std::string& c, const std::string& d) { L.violate(key + "|" + c, replay, d); };
    const int n = A.rows();
    const LD u = LD(std::numeric_limits<double>::epsilon()), nA = std::max(fro(A), LD(1e-300L));
    Eigen::VectorXd ev;
    Eigen::MatrixXd X;
    try
    {
        ev = s.eigenvalues();
        X = s.eigenvectors();
    }
    catch (const std::exception& e)
    {
        viol("accessor-threw", e.what());
        return;
    }
    const int info = int(s.info());
    L.count(info == int(CompInfo::Successful) ? "successful" : (info == int(CompInfo::NotConverging) ? "notconverging" : "other_status"));
    // finite whatever the outcome
    for (long i = 0; i < ev.size(); i++)
        if (!std::isfinite(ev[i])) { viol("nonfinite", "eigenvalues()[" + num(i) + "] is not finite (info=" + num(info) + ")"); return; }
    if (info != int(CompInfo::Successful)) return;
    {
        Fnv f; f.str(key);
        L.distinct.insert(f.h);
        L.sample("{\"history\": " + jstr(key) + ", \"info\": \"Successful\"}", 4);
    }
    if (ret != nev) viol("count", "Successful but compute() returned " + num(ret) + " != nev=" + num(nev));
    if (ev.size() != nev || X.cols() != nev || X.rows() != n) { viol("shape", "eigenvalues()/eigenvectors() have the wrong size"); return; }
    MatL Xl = X.cast<LD>();
    if (!all_finite(Xl)) { viol("nonfinite", "eigenvectors() not finite"); return; }
    for (int i = 0; i < nev; i++)
    {
        const VecL x = Xl.col(i);
        const LD r = (A * x - LD(ev[i]) * x).norm(), bound = LD(tol) + 1e3L * u * nA;
        L.ratio("residual", r / bound);
        if (!(r < bound)) viol("residual", "pair " + num(i) + " theta=" + gnum(ev[i]) + " ||Ax-theta x||=" + gnum(r) + " tol=" + gnum(tol));
        if (std::abs(x.norm() - 1) > 5e3L * u) viol("unit-norm", "pair " + num(i) + " ||x||-1=" + gnum(x.norm() - 1));
        if (i + 1 < nev)
        {
            const LD a = key_of(rule, ev[i]), b = key_of(rule, ev[i + 1]);
            if (!(a <= b + 8 * u * std::max(std::abs(a), std::abs(b)))) viol("order", std::string("values not ordered by ") + RNAME[rule] + ": " + gnum(ev[i]) + " before " + gnum(ev[i + 1]));
        }
    }
    const LD g = maxabs(MatL(Xl.transpose() * Xl - MatL::Identity(nev, nev)));
    L.ratio("orthonormal", g / (1e4L * u));
    if (!(g <= 1e4L * u)) viol("orthonormal", "max|X'X-I|=" + gnum(g));
}

struct Cfg
{
    int nev, ninit, nmax;  // ninit < 0: the one-argument constructor
};

template <class Op, class Mat>
static void run_subject(const MatL& A, const Mat& M, const std::string& desc, const std::string& replay, const std::vector<Cfg>& cfgs, int depth, Local& L)
{
    const int n = A.rows();
    for (const Cfg& c : cfgs)
    {
        // guesses for compute_with_guess: orthonormal coordinate block, non-orthonormal pair sums, rank-deficient block
        const int gs = std::max(c.nev, c.ninit > 0 ? c.ninit : 2 * c.nev);
        std::vector<std::pair<std::string, Eigen::MatrixXd>> guesses;
        if (gs <= n)
        {
            for (int off = 0; off + gs <= n; off += std::max(1, n - gs))
            {
                Eigen::MatrixXd G = Eigen::MatrixXd::Zero(n, gs);
                for (int k = 0; k < gs; k++) G(off + k, k) = 1;
                guesses.push_back({"coord" + num(off), G});
            }
            Eigen::MatrixXd P = Eigen::MatrixXd::Zero(n, gs);
            for (int k = 0; k < gs; k++) { P(k, k) = 1; P((k + 1) % n, k) = 1; }
            guesses.push_back({"pairsum", P});
            // a non-orthonormal, badly scaled but full-rank block
            Eigen::MatrixXd Sk = Eigen::MatrixXd::Zero(n, gs);
            for (int k = 0; k < gs; k++) { Sk(k, k) = 1 + 3 * k; Sk((k + 2) % n, k) += 0.5; Sk(0, k) += 0.25; }
            guesses.push_back({"skewed", Sk});
            // exactly dependent columns: the same vector given twice, and a zero column (the solver has to orthonormalize
            // whatever block it is handed; a dependent column must not survive as a zero/duplicate basis vector)
            if (gs >= 2)
            {
                Eigen::MatrixXd Rp = Eigen::MatrixXd::Zero(n, gs), Zc = Eigen::MatrixXd::Zero(n, gs);
                for (int k = 0; k < gs; k++) { Rp(k, k) = 1; Rp((k + 1) % n, k) = 0.5; Zc(k, k) = 1; Zc((k + 1) % n, k) = 0.5; }
                Rp.col(gs - 1) = Rp.col(0);
                Zc.col(gs - 1).setZero();
                guesses.push_back({"repeated", Rp});
                guesses.push_back({"zerocol", Zc});
            }
        }
        // operation alphabet: (kind, rule, tol): kind 0 = compute, kind 1.. = compute_with_guess(guess kind-1)
        struct OpD { int g, rule, tol; };
        std::vector<OpD> ops;
        for (int r = 0; r < 4; r++)
            for (int t = 0; t < 3; t++)
            {
                ops.push_back({0, r, t});
                for (size_t gq = 0; gq < guesses.size(); gq++)
                    if ((r + t + int(gq)) % 3 == 0) ops.push_back({int(gq) + 1, r, t});
            }
        std::vector<std::vector<int>> hist;
        for (int a = 0; a < int(ops.size()); a++) hist.push_back({a});
        if (depth >= 2)
            for (int a = 0; a < int(ops.size()); a += 5)
                for (int b = 0; b < int(ops.size()); b += 3) hist.push_back({a, b});
        for (auto& h : hist)
        {
            std::string key = std::string(std::is_same<Mat, Eigen::MatrixXd>::value ? "Davidson<dense>|" : "Davidson<sparse>|") + desc + "|nev=" + num(c.nev) + ",init=" + num(c.ninit) + ",max=" + num(c.nmax) + "|";
            L.evaluations++;
            L.traces++;
            try
            {
                Op op(M);
                std::unique_ptr<DavidsonSymEigsSolver<Op>> s;
                if (c.ninit < 0) s = std::make_unique<DavidsonSymEigsSolver<Op>>(op, c.nev);
                else s = std::make_unique<DavidsonSymEigsSolver<Op>>(op, c.nev, c.ninit, c.nmax);
                for (size_t i = 0; i < h.size(); i++)
                {
                    const OpD& o = ops[h[i]];
                    key += (i ? ";" : "") + std::string(o.g ? "G[" + guesses[o.g - 1].first + "](" : "C(") + RNAME[o.rule] + "," + std::string(gnum(TOLS[o.tol])) + ")";
                    long ret;
                    if (o.g == 0) ret = s->compute(RULES[o.rule], 100, TOLS[o.tol]);
                    else ret = s->compute_with_guess(guesses[o.g - 1].second, RULES[o.rule], 100, TOLS[o.tol]);
                    L.transitions++;
                    judge(*s, ret, A, c.nev, o.rule, TOLS[o.tol], key, replay, L);
                }
                Fnv f; f.str(key);
                L.states.insert(f.h);
            }
            catch (const std::invalid_argument& e) { L.count("invalid_argument"); }
            catch (const std::exception& e) { L.violate(key + "|exception", replay, e.what()); }
        }
    }
}

static void run_matrix(const MatL& A, const std::string& desc, const std::string& replay, const std::vector<Cfg>& cfgs, int depth, bool sparse_too, Local& L)
{
    Eigen::MatrixXd M = A.cast<double>();
    run_subject<DenseSymMatProd<double>, Eigen::MatrixXd>(A, M, desc, replay, cfgs, depth, L);
    if (sparse_too)
    {
        Eigen::SparseMatrix<double> S = M.sparseView();
        run_subject<SparseSymMatProd<double>, Eigen::SparseMatrix<double>>(A, S, desc, replay, cfgs, depth, L);
    }
}

int main(int argc, char** argv)
{
    Config cfg = parse_args(argc, argv, 240, 1200);
    Runner R("C15", cfg);
    const bool q = cfg.quick();
    const int depth = 2;
    // all (nev, init, max) with init + correction(= nev) <= n for n = 4
    std::vector<Cfg> cfg4 = {{1, -1, -1}, {2, -1, -1}, {3, -1, -1}, {1, 1, 3}, {1, 2, 4}, {2, 2, 4}, {1, 3, 4}};
    R.run("sint4", sint_count(4, 3) * 3, [&](uint64_t idx, Local& L) {
        const uint64_t ai = idx % sint_count(4, 3);
        const int ci = idx / sint_count(4, 3);
        if (ai % (q ? 27 : 3) != 0) { L.count("skipped_tier"); return; }
        const LD cs[3] = {0, 3, 10};
        MatL A = sint_get(4, D3(), ai);
        for (int i = 0; i < 4; i++) A(i, i) += cs[ci] * (i + 1);
        run_matrix(A, "sint4:" + num(ai) + "+" + gnum(cs[ci]) + "diag", "sint4#" + num(idx), cfg4, depth, ai % 81 == 0, L);
    });
    // structured: block-diagonal, decoupled coordinate, isolated diagonal entry, n = 5..8
    struct Fam { std::string name; MatL A; };
    std::vector<Fam> fam;
    for (int n = 5; n <= 8; n++)
        for (int dom = 0; dom < 2; dom++)
        {
            const LD c = dom ? LD(10) : LD(0.5);
            auto base = [&](int k) { MatL B = MatL::Zero(k, k); for (int i = 0; i < k; i++) { B(i, i) = c * (i + 1); if (i + 1 < k) B(i, i + 1) = B(i + 1, i) = 1; } return B; };
            for (int k = 1; k < n; k++)
            {
                MatL A = MatL::Zero(n, n);
                A.topLeftCorner(k, k) = base(k);
                A.bottomRightCorner(n - k, n - k) = base(n - k) * LD(1.5);
                fam.push_back({"blk" + num(n) + "_" + num(k) + (dom ? "_dom" : "_weak"), A});
            }
            {
                MatL A = base(n);
                A.row(n - 1).setZero(); A.col(n - 1).setZero(); A(n - 1, n - 1) = c * n;   // last coordinate exactly decoupled
                fam.push_back({"decoupled_last" + num(n) + (dom ? "_dom" : "_weak"), A});
                MatL B2 = base(n);
                B2.row(0).setZero(); B2.col(0).setZero(); B2(0, 0) = c * (n + 2) + 7;      // isolated largest diagonal entry
                fam.push_back({"isolated_first" + num(n) + (dom ? "_dom" : "_weak"), B2});
                MatL B3 = base(n);
                B3.row(2).setZero(); B3.col(2).setZero(); B3(2, 2) = c * 2 + LD(0.25);      // isolated interior entry
                fam.push_back({"isolated_mid" + num(n) + (dom ? "_dom" : "_weak"), B3});
            }
            fam.push_back({"full" + num(n) + (dom ? "_dom" : "_weak"), base(n)});
        }
    R.run("struct", fam.size(), [&](uint64_t idx, Local& L) {
        const int n = fam[idx].A.rows();
        std::vector<Cfg> cf;
        for (int nev = 1; nev <= std::min(n - 1, 4); nev++)
        {
            cf.push_back({nev, -1, -1});
            cf.push_back({nev, nev, std::min(n, 2 * nev + 1)});
            if (2 * nev + nev <= n) cf.push_back({nev, 2 * nev, n});
        }
        run_matrix(fam[idx].A, fam[idx].name, "struct#" + num(idx), cf, depth, true, L);
    });
    return R.finish("every history of depth <= 2 over compute / compute_with_guess x 4 rules x 3 tolerances x guesses, per (matrix, wrapper, (nev, initial, maximal) sizes); states = (subject, history); non-trivial = outcome Successful",
                    {"true residuals formed in long double from the matrix itself; rounding allowance 1e3*eps*||A||_F next to tol", "unit norm to 5e3*eps, orthonormality to 1e4*eps",
                     "built with -DNDEBUG (release semantics for the C asserts in Orthogonalization.h), Eigen index assertions on"});
}

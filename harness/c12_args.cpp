// C12 - invalid arguments are rejected with std::invalid_argument; valid ones are accepted; a rejected call leaks nothing.
// Exhaustive over exactly the grid the property states: every solver class x n in 1..12 x (nev, ncv) in [-2, n+3]^2,
// every one of the nine SortRule values as selection and as sorting argument, sigma = 0 in buckling / Cayley mode,
// init() with a zero (and a sub-normal) vector, every wrapper constructor that requires a square matrix with every
// shape up to 4x4.  Reference model = the documented predicate.  Built with AddressSanitizer + LeakSanitizer; heap
// allocations made through operator new are counted around every rejected call.
#include "engine/common.h"
#include "engine/oracle.h"
#include "engine/alloc_track.h"
#include <Eigen/Sparse>
#include <Spectra/SymEigsSolver.h>
#include <Spectra/SymEigsShiftSolver.h>
#include <Spectra/HermEigsSolver.h>
#include <Spectra/GenEigsSolver.h>
#include <Spectra/GenEigsRealShiftSolver.h>
#include <Spectra/GenEigsComplexShiftSolver.h>
#include <Spectra/SymGEigsSolver.h>
#include <Spectra/SymGEigsShiftSolver.h>
#include <Spectra/DavidsonSymEigsSolver.h>
#include <Spectra/contrib/PartialSVDSolver.h>
#include <Spectra/MatOp/DenseSymMatProd.h>
#include <Spectra/MatOp/DenseHermMatProd.h>
#include <Spectra/MatOp/DenseGenMatProd.h>
#include <Spectra/MatOp/DenseSymShiftSolve.h>
#include <Spectra/MatOp/DenseGenRealShiftSolve.h>
#include <Spectra/MatOp/DenseGenComplexShiftSolve.h>
#include <Spectra/MatOp/DenseCholesky.h>
#include <Spectra/MatOp/SparseCholesky.h>
#include <Spectra/MatOp/SparseSymMatProd.h>
#include <Spectra/MatOp/SparseGenMatProd.h>
#include <Spectra/MatOp/SparseSymShiftSolve.h>
#include <Spectra/MatOp/SparseGenRealShiftSolve.h>
#include <Spectra/MatOp/SparseGenComplexShiftSolve.h>
#include <Spectra/MatOp/SparseRegularInverse.h>
#include <Spectra/MatOp/SymShiftInvert.h>

using namespace vf;
using namespace Spectra;

enum Outcome { ACCEPTED, INVALID_ARGUMENT, OTHER_EXCEPTION };
struct Res
{
    Outcome o = ACCEPTED;
    std::string what;
    long leaked = 0;
};
template <class F>
static Res attempt(F&& f)
{
    Res r;
    const long live0 = g_live;
    {
        Track t;
        try
        {
            f();
        }
        catch (const std::invalid_argument& e) { g_track = false; r.o = INVALID_ARGUMENT; r.what = e.what(); g_track = true; }
        catch (const std::exception& e) { g_track = false; r.o = OTHER_EXCEPTION; r.what = std::string("std::exception: ") + e.what(); g_track = true; }
        catch (...) { g_track = false; r.o = OTHER_EXCEPTION; r.what = "unknown exception"; g_track = true; }
    }
    r.leaked = g_live - live0;
    return r;
}

static Eigen::MatrixXd sym_mat(int n)
{
    Eigen::MatrixXd A = Eigen::MatrixXd::Zero(n, n);
    for (int i = 0; i < n; i++) { A(i, i) = 2 + 0.5 * i; if (i + 1 < n) A(i, i + 1) = A(i + 1, i) = -1; }
    return A;
}
static Eigen::MatrixXd gen_mat(int n)
{
    Eigen::MatrixXd A = Eigen::MatrixXd::Zero(n, n);
    for (int i = 0; i < n; i++) { A(i, i) = 1 + i; if (i + 1 < n) { A(i, i + 1) = 1; A(i + 1, i) = -0.5; } }
    return A;
}
static Eigen::MatrixXd spd_mat(int n)
{
    Eigen::MatrixXd B = Eigen::MatrixXd::Zero(n, n);
    for (int i = 0; i < n; i++) { B(i, i) = 4; if (i + 1 < n) B(i, i + 1) = B(i + 1, i) = 1; }
    return B;
}

static bool valid_sym(long n, long nev, long ncv) { return nev >= 1 && nev <= n - 1 && ncv > nev && ncv <= n; }
static bool valid_gen(long n, long nev, long ncv) { return nev >= 1 && nev <= n - 2 && ncv >= nev + 2 && ncv <= n; }

// judge one construction (+ init/compute when it should be valid) against the predicate
template <class Build>
static void judge(const std::string& key, const std::string& replay, bool valid, Build&& build, Local& L)
{
    L.evaluations++;
    Res r = attempt(build);
    Fnv h; h.str(key);
    L.distinct.insert(h.h);
    L.sample("{\"call\": " + jstr(key) + ", \"documented_valid\": " + (valid ? "true" : "false") + ", \"outcome\": " + jstr(r.o == ACCEPTED ? "accepted" : r.o == INVALID_ARGUMENT ? "invalid_argument" : r.what) + "}", 4);
    if (valid)
    {
        L.count("valid_cases");
        if (r.o != ACCEPTED) L.violate(key + "|valid-rejected", replay, "documented-valid arguments raised " + r.what);
    }
    else
    {
        L.count("invalid_cases");
        if (r.o == ACCEPTED) L.violate(key + "|invalid-accepted", replay, "arguments outside the documented range were accepted");
        else if (r.o == OTHER_EXCEPTION) L.violate(key + "|wrong-exception-type", replay, "expected std::invalid_argument, got " + r.what);
    }
    if (r.leaked != 0) L.violate(key + "|leak", replay, num(r.leaked) + " heap allocation(s) still live after the " + (r.o == ACCEPTED ? "object was destroyed" : "call was rejected"));
}

int main(int argc, char** argv)
{
    Config cfg = parse_args(argc, argv, 240, 900);
    Runner R("C12", cfg);

    // ---------------- (1) the (n, nev, ncv) grid for every solver class
    struct G { int n; long nev, ncv; };
    std::vector<G> grid;
    for (int n = 1; n <= 12; n++)
        for (long nev = -2; nev <= n + 3; nev++)
            for (long ncv = -2; ncv <= n + 3; ncv++) grid.push_back({n, nev, ncv});
    R.run("grid", grid.size(), [&](uint64_t idx, Local& L) {
        const int n = grid[idx].n;
        const long nev = grid[idx].nev, ncv = grid[idx].ncv;
        const std::string cfgs = "|n=" + num(n) + ",nev=" + num(nev) + ",ncv=" + num(ncv), rp = "grid#" + num(idx);
        Eigen::MatrixXd A = sym_mat(n), Gm = gen_mat(n), B = spd_mat(n);
        Eigen::MatrixXcd Hm = A.cast<std::complex<double>>();
        Eigen::SparseMatrix<double> As = A.sparseView(), Bs = B.sparseView();
        const bool vs = valid_sym(n, nev, ncv), vg = valid_gen(n, nev, ncv);
        judge("SymEigsSolver" + cfgs, rp, vs, [&]() { DenseSymMatProd<double> op(A); SymEigsSolver<DenseSymMatProd<double>> s(op, nev, ncv); s.init(); s.compute(); }, L);
        judge("SymEigsShiftSolver" + cfgs, rp, vs, [&]() { DenseSymShiftSolve<double> op(A); SymEigsShiftSolver<DenseSymShiftSolve<double>> s(op, nev, ncv, 0.3); s.init(); s.compute(); }, L);
        judge("HermEigsSolver" + cfgs, rp, vs, [&]() { DenseHermMatProd<std::complex<double>> op(Hm); HermEigsSolver<DenseHermMatProd<std::complex<double>>> s(op, nev, ncv); s.init(); s.compute(); }, L);
        judge("GenEigsSolver" + cfgs, rp, vg, [&]() { DenseGenMatProd<double> op(Gm); GenEigsSolver<DenseGenMatProd<double>> s(op, nev, ncv); s.init(); s.compute(); }, L);
        judge("GenEigsRealShiftSolver" + cfgs, rp, vg, [&]() { DenseGenRealShiftSolve<double> op(Gm); GenEigsRealShiftSolver<DenseGenRealShiftSolve<double>> s(op, nev, ncv, 0.3); s.init(); s.compute(); }, L);
        judge("GenEigsComplexShiftSolver" + cfgs, rp, vg, [&]() { DenseGenComplexShiftSolve<double> op(Gm); GenEigsComplexShiftSolver<DenseGenComplexShiftSolve<double>> s(op, nev, ncv, 0.3, 0.7); s.init(); s.compute(); }, L);
        judge("SymGEigsSolver<Cholesky>" + cfgs, rp, vs, [&]() { DenseSymMatProd<double> op(A); DenseCholesky<double> bop(B); SymGEigsSolver<DenseSymMatProd<double>, DenseCholesky<double>, GEigsMode::Cholesky> s(op, bop, nev, ncv); s.init(); s.compute(); }, L);
        judge("SymGEigsSolver<RegularInverse>" + cfgs, rp, vs, [&]() { SparseSymMatProd<double> op(As); SparseRegularInverse<double> bop(Bs); SymGEigsSolver<SparseSymMatProd<double>, SparseRegularInverse<double>, GEigsMode::RegularInverse> s(op, bop, nev, ncv); s.init(); s.compute(); }, L);
        using SI = SymShiftInvert<double, Eigen::Dense, Eigen::Dense>;
        judge("SymGEigsShiftSolver<ShiftInvert>" + cfgs, rp, vs, [&]() { SI op(A, B); DenseSymMatProd<double> bop(B); SymGEigsShiftSolver<SI, DenseSymMatProd<double>, GEigsMode::ShiftInvert> s(op, bop, nev, ncv, 0.3); s.init(); s.compute(); }, L);
        judge("SymGEigsShiftSolver<Buckling>" + cfgs, rp, vs, [&]() { SI op(B, A); DenseSymMatProd<double> bop(B); SymGEigsShiftSolver<SI, DenseSymMatProd<double>, GEigsMode::Buckling> s(op, bop, nev, ncv, 1.3); s.init(); s.compute(); }, L);
        judge("SymGEigsShiftSolver<Cayley>" + cfgs, rp, vs, [&]() { SI op(A, B); DenseSymMatProd<double> bop(B); SymGEigsShiftSolver<SI, DenseSymMatProd<double>, GEigsMode::Cayley> s(op, bop, nev, ncv, 0.3); s.init(); s.compute(); }, L);
        // partial SVD of an n x (n+2) and an (n+3) x n matrix: the eigenproblem has dimension min(m, n) = n
        {
            Eigen::MatrixXd W = Eigen::MatrixXd::Zero(n, n + 2), T = Eigen::MatrixXd::Zero(n + 3, n);
            for (int i = 0; i < n; i++) { W(i, i) = i + 1; W(i, i + 1) = 0.5; T(i, i) = i + 1; T(i + 2, i) = 0.25; }
            judge("PartialSVDSolver<wide>" + cfgs, rp, vs, [&]() { PartialSVDSolver<Eigen::MatrixXd> s(W, nev, ncv); s.compute(); }, L);
            judge("PartialSVDSolver<tall>" + cfgs, rp, vs, [&]() { PartialSVDSolver<Eigen::MatrixXd> s(T, nev, ncv); s.compute(); }, L);
        }
        // Davidson: nev is the only documented range (1 <= nev <= n-1); run once per nev (ncv column -2 only)
        if (ncv == -2)
        {
            const bool vd = nev >= 1 && nev <= n - 1;
            Eigen::MatrixXd D = A;
            for (int i = 0; i < n; i++) D(i, i) += 3.0 * i;
            judge("DavidsonSymEigsSolver|n=" + num(n) + ",nev=" + num(nev), rp, vd, [&]() { DenseSymMatProd<double> op(D); DavidsonSymEigsSolver<DenseSymMatProd<double>> s(op, nev); if (vd) s.compute(SortRule::LargestAlge, 100, 1e-6); }, L);
            judge("DavidsonSymEigsSolver(4 args)|n=" + num(n) + ",nev=" + num(nev), rp, vd, [&]() { DenseSymMatProd<double> op(D); DavidsonSymEigsSolver<DenseSymMatProd<double>> s(op, nev, 2 * nev, 4 * nev); if (vd) s.compute(SortRule::LargestAlge, 100, 1e-6); }, L);
        }
    });

    // ---------------- (2) every SortRule value as selection and as sorting
    static const SortRule ALL[9] = {SortRule::LargestMagn, SortRule::LargestReal, SortRule::LargestImag, SortRule::LargestAlge, SortRule::SmallestMagn,
                                    SortRule::SmallestReal, SortRule::SmallestImag, SortRule::SmallestAlge, SortRule::BothEnds};
    static const char* RN[9] = {"LargestMagn", "LargestReal", "LargestImag", "LargestAlge", "SmallestMagn", "SmallestReal", "SmallestImag", "SmallestAlge", "BothEnds"};
    auto sym_sel_ok = [](SortRule r) { return r == SortRule::LargestMagn || r == SortRule::LargestAlge || r == SortRule::SmallestMagn || r == SortRule::SmallestAlge || r == SortRule::BothEnds; };
    auto sym_sort_ok = [](SortRule r) { return r == SortRule::LargestMagn || r == SortRule::LargestAlge || r == SortRule::SmallestMagn || r == SortRule::SmallestAlge; };
    auto gen_ok = [](SortRule r) { return r == SortRule::LargestMagn || r == SortRule::LargestReal || r == SortRule::LargestImag || r == SortRule::SmallestMagn || r == SortRule::SmallestReal || r == SortRule::SmallestImag; };
    R.run("rules", 81 * 4, [&](uint64_t idx, Local& L) {
        const int sel = idx % 9, srt = (idx / 9) % 9, n = 6 + 2 * int(idx / 81);
        const std::string rp = "rules#" + num(idx), cs = std::string("|n=") + num(n) + "|selection=" + RN[sel] + ",sorting=" + RN[srt];
        Eigen::MatrixXd A = sym_mat(n), Gm = gen_mat(n), B = spd_mat(n);
        Eigen::MatrixXcd Hm = A.cast<std::complex<double>>();
        const bool vs = sym_sel_ok(ALL[sel]) && sym_sort_ok(ALL[srt]), vg = gen_ok(ALL[sel]) && gen_ok(ALL[srt]);
        judge("SymEigsSolver" + cs, rp, vs, [&]() { DenseSymMatProd<double> op(A); SymEigsSolver<DenseSymMatProd<double>> s(op, 2, 5); s.init(); s.compute(ALL[sel], 100, 1e-8, ALL[srt]); }, L);
        judge("SymEigsShiftSolver" + cs, rp, vs, [&]() { DenseSymShiftSolve<double> op(A); SymEigsShiftSolver<DenseSymShiftSolve<double>> s(op, 2, 5, 0.3); s.init(); s.compute(ALL[sel], 100, 1e-8, ALL[srt]); }, L);
        judge("HermEigsSolver" + cs, rp, vs, [&]() { DenseHermMatProd<std::complex<double>> op(Hm); HermEigsSolver<DenseHermMatProd<std::complex<double>>> s(op, 2, 5); s.init(); s.compute(ALL[sel], 100, 1e-8, ALL[srt]); }, L);
        judge("SymGEigsSolver<Cholesky>" + cs, rp, vs, [&]() { DenseSymMatProd<double> op(A); DenseCholesky<double> bop(B); SymGEigsSolver<DenseSymMatProd<double>, DenseCholesky<double>, GEigsMode::Cholesky> s(op, bop, 2, 5); s.init(); s.compute(ALL[sel], 100, 1e-8, ALL[srt]); }, L);
        using SI = SymShiftInvert<double, Eigen::Dense, Eigen::Dense>;
        judge("SymGEigsShiftSolver<Cayley>" + cs, rp, vs, [&]() { SI op(A, B); DenseSymMatProd<double> bop(B); SymGEigsShiftSolver<SI, DenseSymMatProd<double>, GEigsMode::Cayley> s(op, bop, 2, 5, 0.3); s.init(); s.compute(ALL[sel], 100, 1e-8, ALL[srt]); }, L);
        judge("GenEigsSolver" + cs, rp, vg, [&]() { DenseGenMatProd<double> op(Gm); GenEigsSolver<DenseGenMatProd<double>> s(op, 2, 5); s.init(); s.compute(ALL[sel], 100, 1e-8, ALL[srt]); }, L);
        judge("GenEigsRealShiftSolver" + cs, rp, vg, [&]() { DenseGenRealShiftSolve<double> op(Gm); GenEigsRealShiftSolver<DenseGenRealShiftSolve<double>> s(op, 2, 5, 0.3); s.init(); s.compute(ALL[sel], 100, 1e-8, ALL[srt]); }, L);
        judge("GenEigsComplexShiftSolver" + cs, rp, vg, [&]() { DenseGenComplexShiftSolve<double> op(Gm); GenEigsComplexShiftSolver<DenseGenComplexShiftSolve<double>> s(op, 2, 5, 0.3, 0.7); s.init(); s.compute(ALL[sel], 100, 1e-8, ALL[srt]); }, L);
        // a rejected (or accepted) compute() leaves nothing half-done behind: the operator object handed to a shift solver
        // still applies the shift given at construction - its answer to a fixed probe vector is bit-identical before and after
        {
            auto probe = [&](auto& op) { Eigen::VectorXd x = Eigen::VectorXd::LinSpaced(n, 1.0, 2.0), y = Eigen::VectorXd::Zero(n); op.perform_op(x.data(), y.data()); return y; };
            auto side = [&](const std::string& name, auto& op, auto& solver) {
                const Eigen::VectorXd p1 = probe(op);
                solver.init();
                bool rejected = false;
                try { solver.compute(ALL[sel], 100, 1e-8, ALL[srt]); }
                catch (const std::invalid_argument&) { rejected = true; }
                catch (const std::exception&) { return; }  // reported by judge() above
                const Eigen::VectorXd p2 = probe(op);
                L.evaluations++;
                if (std::memcmp(p1.data(), p2.data(), sizeof(double) * n) != 0)
                    L.violate(name + cs + (rejected ? "|rejected-call-changed-operator" : "|call-changed-operator"), rp, "the operator answers a fixed probe vector differently after compute() than before");
            };
            { DenseSymShiftSolve<double> op(A); SymEigsShiftSolver<DenseSymShiftSolve<double>> sv(op, 2, 5, 0.3); side("SymEigsShiftSolver", op, sv); }
            { DenseGenRealShiftSolve<double> op(Gm); GenEigsRealShiftSolver<DenseGenRealShiftSolve<double>> sv(op, 2, 5, 0.3); side("GenEigsRealShiftSolver", op, sv); }
            { DenseGenComplexShiftSolve<double> op(Gm); GenEigsComplexShiftSolver<DenseGenComplexShiftSolve<double>> sv(op, 2, 5, 0.3, 0.7); side("GenEigsComplexShiftSolver", op, sv); }
            { SI op(A, B); DenseSymMatProd<double> bop(B); SymGEigsShiftSolver<SI, DenseSymMatProd<double>, GEigsMode::Cayley> sv(op, bop, 2, 5, 0.3); side("SymGEigsShiftSolver<Cayley>", op, sv); }
        }
    });

    // ---------------- (3) sigma = 0 in buckling / Cayley, zero start vectors
    R.run("sigma_and_start", 12, [&](uint64_t w, Local& L) {
        const int n = int(w) + 3;
        const std::string rp = "sigma_and_start#" + num(w), cs = "|n=" + num(n);
        Eigen::MatrixXd A = sym_mat(n), Gm = gen_mat(n), B = spd_mat(n);
        using SI = SymShiftInvert<double, Eigen::Dense, Eigen::Dense>;
        for (double sg : {0.0, -0.0})
        {
            const std::string ss = cs + "|sigma=" + (std::signbit(sg) ? "-0" : "0");
            judge("SymGEigsShiftSolver<Buckling>" + ss, rp, false, [&]() { SI op(B, A); DenseSymMatProd<double> bop(B); SymGEigsShiftSolver<SI, DenseSymMatProd<double>, GEigsMode::Buckling> s(op, bop, 1, n, sg); }, L);
            judge("SymGEigsShiftSolver<Cayley>" + ss, rp, false, [&]() { SI op(A, B); DenseSymMatProd<double> bop(B); SymGEigsShiftSolver<SI, DenseSymMatProd<double>, GEigsMode::Cayley> s(op, bop, 1, n, sg); }, L);
            // sigma = 0 is legal in plain shift-and-invert mode
            judge("SymGEigsShiftSolver<ShiftInvert>" + ss, rp, true, [&]() { SI op(A, B); DenseSymMatProd<double> bop(B); SymGEigsShiftSolver<SI, DenseSymMatProd<double>, GEigsMode::ShiftInvert> s(op, bop, 1, n, sg); s.init(); s.compute(); }, L);
        }
        for (double tiny : {0.0, 1e-310})
        {
            Eigen::VectorXd z = Eigen::VectorXd::Constant(n, tiny);
            const std::string zs = cs + "|start=" + (tiny == 0 ? "zero" : "subnormal");
            judge("SymEigsSolver.init" + zs, rp, false, [&]() { DenseSymMatProd<double> op(A); SymEigsSolver<DenseSymMatProd<double>> s(op, 1, n); s.init(z.data()); }, L);
            judge("GenEigsSolver.init" + zs, rp, false, [&]() { DenseGenMatProd<double> op(Gm); GenEigsSolver<DenseGenMatProd<double>> s(op, 1, n); s.init(z.data()); }, L);
            judge("SymGEigsSolver<Cholesky>.init" + zs, rp, false, [&]() { DenseSymMatProd<double> op(A); DenseCholesky<double> bop(B); SymGEigsSolver<DenseSymMatProd<double>, DenseCholesky<double>, GEigsMode::Cholesky> s(op, bop, 1, n); s.init(z.data()); }, L);
            Eigen::VectorXcd zc = z.cast<std::complex<double>>();
            Eigen::MatrixXcd Hm = A.cast<std::complex<double>>();
            judge("HermEigsSolver.init" + zs, rp, false, [&]() { DenseHermMatProd<std::complex<double>> op(Hm); HermEigsSolver<DenseHermMatProd<std::complex<double>>> s(op, 1, n); s.init(zc.data()); }, L);
        }
        // a non-zero start vector is accepted
        Eigen::VectorXd e = Eigen::VectorXd::Zero(n);
        e[n - 1] = 1e-150;
        judge("SymEigsSolver.init" + cs + "|start=tiny-but-normal", rp, true, [&]() { DenseSymMatProd<double> op(A); SymEigsSolver<DenseSymMatProd<double>> s(op, 1, n); s.init(e.data()); s.compute(); }, L);
    });

    // ---------------- (4) wrapper constructors that require a square matrix: every shape up to 4 x 4
    R.run("shapes", 16, [&](uint64_t w, Local& L) {
        const int r = int(w) / 4 + 1, c = int(w) % 4 + 1;
        const bool sq = (r == c);
        const std::string cs = "|" + num(r) + "x" + num(c), rp = "shapes#" + num(w);
        Eigen::MatrixXd M = Eigen::MatrixXd::Zero(r, c);
        for (int i = 0; i < std::min(r, c); i++) M(i, i) = 3 + i;
        Eigen::SparseMatrix<double> Ms = M.sparseView();
        Eigen::MatrixXd Sq = Eigen::MatrixXd::Identity(r, r) * 2.0;
        Eigen::SparseMatrix<double> Sqs = Sq.sparseView();
        judge("DenseSymShiftSolve" + cs, rp, sq, [&]() { DenseSymShiftSolve<double> op(M); }, L);
        judge("DenseGenRealShiftSolve" + cs, rp, sq, [&]() { DenseGenRealShiftSolve<double> op(M); }, L);
        judge("DenseGenComplexShiftSolve" + cs, rp, sq, [&]() { DenseGenComplexShiftSolve<double> op(M); }, L);
        judge("DenseCholesky" + cs, rp, sq, [&]() { DenseCholesky<double> op(M); }, L);
        judge("SparseSymShiftSolve" + cs, rp, sq, [&]() { SparseSymShiftSolve<double> op(Ms); }, L);
        judge("SparseGenRealShiftSolve" + cs, rp, sq, [&]() { SparseGenRealShiftSolve<double> op(Ms); }, L);
        judge("SparseGenComplexShiftSolve" + cs, rp, sq, [&]() { SparseGenComplexShiftSolve<double> op(Ms); }, L);
        judge("SparseCholesky" + cs, rp, sq, [&]() { SparseCholesky<double> op(Ms); }, L);
        judge("SparseRegularInverse" + cs, rp, sq, [&]() { SparseRegularInverse<double> op(Ms); }, L);
        judge("SymShiftInvert<dense,dense>(A" + cs + ",B square)", rp, sq, [&]() { SymShiftInvert<double, Eigen::Dense, Eigen::Dense> op(M, Sq); }, L);
        judge("SymShiftInvert<dense,dense>(A square,B" + cs + ")", rp, sq, [&]() { SymShiftInvert<double, Eigen::Dense, Eigen::Dense> op(Sq, M); }, L);
        judge("SymShiftInvert<sparse,sparse>(A" + cs + ",B square)", rp, sq, [&]() { SymShiftInvert<double, Eigen::Sparse, Eigen::Sparse> op(Ms, Sqs); }, L);
        judge("SymShiftInvert<sparse,dense>(A square,B" + cs + ")", rp, sq, [&]() { SymShiftInvert<double, Eigen::Sparse, Eigen::Dense> op(Sqs, M); }, L);
        // the symmetric / Hermitian *product* wrappers do not document a squareness check: informational only
        Res pr = attempt([&]() { DenseSymMatProd<double> op(M); });
        if (!sq) L.count(pr.o == ACCEPTED ? "sym_product_wrapper_accepts_nonsquare(informational)" : "sym_product_wrapper_rejects_nonsquare");
    });
    return R.finish("the complete grid n in 1..12 x (nev,ncv) in [-2,n+3]^2 for 13 solver classes (+2 Davidson constructors per nev), all 81 (selection,sorting) pairs x 8 classes x 4 sizes, sigma=0 / zero start vectors for n in 3..14, 13 square-requiring wrapper constructors x all 16 shapes up to 4x4; distinct = distinct (class, arguments)",
                    {"reference model: sym/Herm/generalized/SVD(min(m,n)) 1<=nev<=n-1 and nev<ncv<=n; general 1<=nev<=n-2 and nev+2<=ncv<=n; Davidson 1<=nev<=n-1",
                     "valid cases also run init(); compute() with default arguments and must not throw",
                     "operator-new allocations are counted around each call; Eigen's malloc-based buffers are covered by LeakSanitizer at process exit",
                     "the symmetric/Hermitian matrix-product wrappers do not document a squareness requirement and are reported as informational only"});
}

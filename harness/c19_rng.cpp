// C19 - the internal RNG is the exact, seed-pure Park-Miller sequence.
// Exhaustive over the ENTIRE generator state space [1, 2^31-2] (explicit-state: every state, every
// successor), over every scalar type's draw function on every state, and over every seed of the forms
// the library uses (0 and 2i+123j, i < 2^20, j < 5) through the public SimpleRandom API.
#include "engine/common.h"
#include <Eigen/Core>
#include <Spectra/Util/SimpleRandom.h>
#include <complex>
#include <memory>

using namespace vf;
using Spectra::SimpleRandom;

static const uint64_t M = 2147483647ULL;  // 2^31 - 1
static inline uint64_t ref_next(uint64_t s) { return (16807ULL * s) % M; }

template <typename T>
static const char* tname();
template <> const char* tname<float>() { return "float"; }
template <> const char* tname<double>() { return "double"; }
template <> const char* tname<long double>() { return "longdouble"; }

// draw function of one real scalar type on every state of a chunk
template <typename T>
static void draws_chunk(uint64_t lo, uint64_t hi, Local& L)
{
    int bad = 0;
    for (uint64_t s = lo; s < hi; s++)
    {
        long st = long(s);
        T v = Spectra::RandomScalar<T>::run(st);
        uint64_t r = ref_next(s);
        T expect = T((long) r) / T(M) - T(0.5);
        bool ok = (uint64_t(st) == r) && (v >= T(-0.5)) && (v <= T(0.5)) && (v == expect);
        if (!ok && bad++ < 2)
            L.violate(std::string("draw:") + tname<T>() + ":state=" + num(s), "", "value=" + gnum(v) + " expect=" + gnum(expect) + " new_state=" + num(st) + " ref=" + num(r));
        // complex draw = two consecutive real draws (re, im), state advanced by exactly two
        long sc = long(s);
        std::complex<T> c = Spectra::RandomScalar<std::complex<T>>::run(sc);
        uint64_t r2 = ref_next(r);
        T eim = T((long) r2) / T(M) - T(0.5);
        bool okc = (uint64_t(sc) == r2) && c.real() == expect && c.imag() == eim && c.imag() >= T(-0.5) && c.imag() <= T(0.5);
        if (!okc && bad++ < 2)
            L.violate(std::string("cdraw:") + tname<T>() + ":state=" + num(s), "", "re=" + gnum(c.real()) + " im=" + gnum(c.imag()) + " new_state=" + num(sc));
    }
    L.evaluations += 2 * (hi - lo);
}

int main(int argc, char** argv)
{
    Config cfg = parse_args(argc, argv, 240, 900);
    Runner R("C19", cfg);
    const uint64_t NSTATE = M - 1;  // states 1 .. 2^31-2
    const uint64_t CH = 1u << 19;
    const uint64_t NCH = (NSTATE + CH - 1) / CH;
    std::atomic<uint64_t> sumA{0}, sumB{0}, sumRef{0};

    // (1) successor function on every state: next(s) == 16807*s mod (2^31-1), in range, never degenerate
    auto step = [&](std::atomic<uint64_t>& acc, bool check) {
        return [&acc, check, CH, NSTATE](uint64_t c, Local& L) {
            uint64_t lo = 1 + c * CH, hi = std::min<uint64_t>(lo + CH, NSTATE + 1);
            uint64_t a = 0, rsum = 0;
            int bad = 0;
            for (uint64_t s = lo; s < hi; s++)
            {
                long nx = Spectra::next_long_rand(long(s));
                a += uint64_t(nx) * 0x9E3779B97F4A7C15ULL + s;  // order-independent checksum
                if (check)
                {
                    uint64_t r = ref_next(s);
                    if (uint64_t(nx) != r || nx < 1 || uint64_t(nx) > M - 1)
                    {
                        if (bad++ < 3)
                            L.violate("step:state=" + num(s), "", "next_long_rand=" + num(nx) + " reference=" + num(r));
                        else
                            L.count("violations_total");
                    }
                }
            }
            acc += a;
            if (check)
            {
                L.evaluations += hi - lo;
                L.count("states_by_construction", hi - lo);
                L.count("distinct_by_construction", hi - lo);
                L.transitions += hi - lo;
                if (c < 2) L.sample("{\"state\": " + num(lo) + ", \"next\": " + num(Spectra::next_long_rand(long(lo))) + ", \"reference\": " + num(ref_next(lo)) + "}");
            }
        };
    };
    R.run("step", NCH, step(sumA, true));

    // (2) purity: the same table recomputed under a different thread partition must give the same checksum
    {
        Config c2 = cfg;
        int saveT = R.cfg.threads;
        R.cfg.threads = std::max(1, saveT / 2 + 1);
        R.run("step_repartitioned", NCH, step(sumB, false));
        R.cfg.threads = saveT;
        if (cfg.only.empty() && R.exhaustive && sumA.load() != sumB.load())
            R.total.violate("purity:repartition", "", "checksum of the full successor table differs between two thread partitions: " + num(sumA.load()) + " vs " + num(sumB.load()));
    }

    // (3) draw functions on every state, three real types + their complex counterparts
    R.run("draw_double", NCH, [&](uint64_t c, Local& L) { uint64_t lo = 1 + c * CH; draws_chunk<double>(lo, std::min<uint64_t>(lo + CH, NSTATE + 1), L); });
    R.run("draw_float", NCH, [&](uint64_t c, Local& L) { uint64_t lo = 1 + c * CH; draws_chunk<float>(lo, std::min<uint64_t>(lo + CH, NSTATE + 1), L); });
    R.run("draw_longdouble", NCH, [&](uint64_t c, Local& L) { uint64_t lo = 1 + c * CH; draws_chunk<long double>(lo, std::min<uint64_t>(lo + CH, NSTATE + 1), L); });

    // (4) every library seed through the public API: 0 and 2i + 123j
    const uint64_t NI = 1u << 20, NJ = 5, SCH = 1u << 10;
    R.run("seeds", (NI / SCH) * NJ + 1, [&](uint64_t c, Local& L) {
        uint64_t j = c / (NI / SCH), i0 = (c % (NI / SCH)) * SCH, cnt = SCH;
        if (c == (NI / SCH) * NJ) { j = 0; i0 = 0; cnt = 1; }  // the extra index is seed 0 (= i=0,j=0 too, harmless)
        for (uint64_t i = i0; i < i0 + cnt; i++)
        {
            unsigned long seed = 2 * i + 123 * j;
            uint64_t st = seed ? (seed & M) : 1;  // documented normalisation
            std::string key = "seed=" + num(seed);
            // two generators at different addresses (stack, heap), draws interleaved
            SimpleRandom<double> g1(seed);
            std::unique_ptr<SimpleRandom<double>> g2(new SimpleRandom<double>(seed));
            SimpleRandom<std::complex<double>> gc(seed);
            SimpleRandom<float> gf(seed);
            SimpleRandom<long double> gl(seed);
            bool ok = (uint64_t(g1.m_rand) == st) && st >= 1 && st <= M - 1;
            uint64_t r = st;
            Eigen::VectorXd v3 = SimpleRandom<double>(seed).random_vec(4);
            Eigen::VectorXd v4(4);
            SimpleRandom<double> g5(seed);
            g5.random_vec(v4);
            uint64_t rc = st;
            for (int k = 0; k < 4 && ok; k++)
            {
                r = ref_next(r);
                double e = double((long) r) / double(M) - 0.5;
                double a = g1.random(), b = g2->random();
                float f = gf.random();
                long double l = gl.random();
                ok = ok && a == e && b == e && v3[k] == e && v4[k] == e && f == (float((long) r) / float(M) - 0.5f) &&
                    l == ((long double) ((long) r) / (long double) (M) -0.5L) && r != 0;
                rc = ref_next(rc);
                double ere = double((long) rc) / double(M) - 0.5;
                rc = ref_next(rc);
                double eim = double((long) rc) / double(M) - 0.5;
                std::complex<double> z = gc.random();
                ok = ok && z.real() == ere && z.imag() == eim;
            }
            if (!ok)
                L.violate("seedseq:" + key, "seeds#" + num(c), "public draws differ from the Park-Miller reference sequence or state out of range (initial state " + num(g1.m_rand) + ")");
            L.evaluations++;
            L.traces++;
        }
        L.count("distinct_by_construction", cnt);
        if (c == 7) L.sample("{\"seed\": " + num(2 * i0 + 123 * j) + ", \"first_draw\": " + num(SimpleRandom<double>(2 * i0 + 123 * j).random()) + "}");
    });

    return R.finish(
        "every generator state 1..2^31-2 (each is a distinct case; successor compared with 16807*s mod 2^31-1 in 64-bit arithmetic); "
        "every state again through RandomScalar<float|double|long double> and their complex forms; every library seed 0, 2i+123j (i<2^20, j<5) through SimpleRandom's public API, 4 draws each, "
        "from stack and heap objects; full table recomputed under a second thread partition",
        {"64-bit unsigned modular arithmetic of the host compiler is the reference", "long is 64 bit on this platform (as in the library's own assumption)"});
}

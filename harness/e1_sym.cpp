// E1 harness for the symmetric / Hermitian Lanczos solvers: SymEigsSolver (dense, sparse, user-defined operator),
// SymEigsShiftSolver (dense, sparse), HermEigsSolver (dense, sparse).  Serves C01, C05, C06 (plain flavour) and the
// sanitizer exploration of C13 (asan flavour) through --prop.
//
// Sections (each index = one matrix; per matrix: every legal (nev,ncv) x solver kinds x [shifts] x the history search
// to depth d, plus the complete depth-2 sweep init(v);compute(args) over VEC(A) x rules x maxit x tol):
//   sint3   all 729 symmetric 3x3 matrices over {-1,0,1}
//   sint4   all 59049 symmetric 4x4 matrices over {-1,0,1}
//   sint5   all 32768 symmetric 5x5 matrices over {0,1}                         (thorough)
//   struct  S-STRUCT(n) n in {5,6,8}: Laplacian, Wilkinson, arrowhead, ones, decoupled, block-diagonal
//   spec    Q diag(lambda) Q' for the spectrum x orthogonal catalogues, n in {6,(8)}, at every scale in Sigma
//   hint3   all 5832 Hermitian 3x3 matrices over the Gaussian-integer alphabet (HermEigsSolver)
//   hspec   U diag(lambda) U^H with unitary U = diag(phases) * Householder, n = 6
#ifndef VF_SCALAR
#define VF_SCALAR double
#endif
#include "engine/e1.h"
#include "engine/alphabet.h"
#include <Spectra/SymEigsSolver.h>
#include <Spectra/SymEigsShiftSolver.h>
#include <Spectra/HermEigsSolver.h>
#include <Spectra/MatOp/DenseSymMatProd.h>
#include <Spectra/MatOp/SparseSymMatProd.h>
#include <Spectra/MatOp/DenseSymShiftSolve.h>
#include <Spectra/MatOp/SparseSymShiftSolve.h>
#include <Spectra/MatOp/DenseHermMatProd.h>
#include <Spectra/MatOp/SparseHermMatProd.h>

using namespace vf;
using S0 = VF_SCALAR;
using C0 = std::complex<S0>;
#define VF_STR2(x) #x
#define VF_STR(x) VF_STR2(x)
static const char* SCALAR_NAME = VF_STR(VF_SCALAR);
// the float / long double instantiations (thorough tier only) run a narrower, always-completed set of families
static const bool NARROW = !std::is_same<S0, double>::value;

template <typename Scalar>
static uint64_t probe_op(const std::function<void(const Scalar*, Scalar*)>& f, long n)
{
    using R = typename Eigen::NumTraits<Scalar>::Real;
    Eigen::Matrix<Scalar, -1, 1> x(n), y(n);
    for (long i = 0; i < n; i++) x[i] = Scalar(R(1) / R(i + 2));
    f(x.data(), y.data());
    Fnv h;
    hash_raw(h, y);
    return h.h;
}

// ---- kinds ------------------------------------------------------------------------------------------------------
template <typename Scalar>
struct KSymDense
{
    static constexpr bool sweep = true;
    using Op = Counted<Spectra::DenseSymMatProd<Scalar>>;
    using Solver = Spectra::SymEigsSolver<Op>;
    Eigen::Matrix<Scalar, -1, -1> M;
    Op op;
    explicit KSymDense(const Subject& S) : M(cast_mat<Scalar>(S.A)), op(M) {}
    std::unique_ptr<Solver> make(const Subject& S) { return std::make_unique<Solver>(op, S.nev, S.ncv); }
    uint64_t probe() const { return probe_op<Scalar>([&](const Scalar* x, Scalar* y) { op.raw_apply(x, y); }, M.rows()); }
    static std::string name() { return std::string("SymEigsSolver<DenseSymMatProd<") + SCALAR_NAME + ">>"; }
};

template <typename Scalar>
struct KSymSparse
{
    static constexpr bool sweep = false;
    using Op = Counted<Spectra::SparseSymMatProd<Scalar>>;
    using Solver = Spectra::SymEigsSolver<Op>;
    Eigen::SparseMatrix<Scalar> M;
    Op op;
    static Eigen::SparseMatrix<Scalar> mk(const Subject& S)
    {
        Eigen::SparseMatrix<Scalar> m = cast_mat<Scalar>(S.A).sparseView();
        m.makeCompressed();
        return m;
    }
    explicit KSymSparse(const Subject& S) : M(mk(S)), op(M) {}
    std::unique_ptr<Solver> make(const Subject& S) { return std::make_unique<Solver>(op, S.nev, S.ncv); }
    uint64_t probe() const { return probe_op<Scalar>([&](const Scalar* x, Scalar* y) { op.raw_apply(x, y); }, M.rows()); }
    static std::string name() { return std::string("SymEigsSolver<SparseSymMatProd<") + SCALAR_NAME + ">>"; }
};

// a user-defined operator class computing the same product with its own loop
template <typename Scalar_>
struct UserSymOp
{
    using Scalar = Scalar_;
    Eigen::Matrix<Scalar, -1, -1> M;
    explicit UserSymOp(const Eigen::Matrix<Scalar, -1, -1>& m) : M(m) {}
    Eigen::Index rows() const { return M.rows(); }
    Eigen::Index cols() const { return M.cols(); }
    void perform_op(const Scalar* x, Scalar* y) const
    {
        const Eigen::Index n = M.rows();
        for (Eigen::Index i = 0; i < n; i++)
        {
            Scalar a = 0;
            for (Eigen::Index j = 0; j < n; j++) a += M(i, j) * x[j];
            y[i] = a;
        }
    }
};
template <typename Scalar>
struct KSymUser
{
    static constexpr bool sweep = false;
    using Op = Counted<UserSymOp<Scalar>>;
    using Solver = Spectra::SymEigsSolver<Op>;
    Op op;
    explicit KSymUser(const Subject& S) : op(cast_mat<Scalar>(S.A)) {}
    std::unique_ptr<Solver> make(const Subject& S) { return std::make_unique<Solver>(op, S.nev, S.ncv); }
    uint64_t probe() const { return probe_op<Scalar>([&](const Scalar* x, Scalar* y) { op.raw_apply(x, y); }, op.rows()); }
    static std::string name() { return std::string("SymEigsSolver<UserOp<") + SCALAR_NAME + ">>"; }
};

template <typename Scalar>
struct KShiftDense
{
    static constexpr bool sweep = true;
    using Op = Counted<Spectra::DenseSymShiftSolve<Scalar>>;
    using Solver = Spectra::SymEigsShiftSolver<Op>;
    Eigen::Matrix<Scalar, -1, -1> M;
    Op op;
    explicit KShiftDense(const Subject& S) : M(cast_mat<Scalar>(S.A)), op(M) {}
    std::unique_ptr<Solver> make(const Subject& S) { return std::make_unique<Solver>(op, S.nev, S.ncv, Scalar(S.sigma.real())); }
    uint64_t probe() const { return probe_op<Scalar>([&](const Scalar* x, Scalar* y) { op.raw_apply(x, y); }, M.rows()); }
    static std::string name() { return std::string("SymEigsShiftSolver<DenseSymShiftSolve<") + SCALAR_NAME + ">>"; }
};
template <typename Scalar>
struct KShiftSparse
{
    static constexpr bool sweep = false;
    using Op = Counted<Spectra::SparseSymShiftSolve<Scalar>>;
    using Solver = Spectra::SymEigsShiftSolver<Op>;
    Eigen::SparseMatrix<Scalar> M;
    Op op;
    explicit KShiftSparse(const Subject& S) : M(KSymSparse<Scalar>::mk(S)), op(M) {}
    std::unique_ptr<Solver> make(const Subject& S) { return std::make_unique<Solver>(op, S.nev, S.ncv, Scalar(S.sigma.real())); }
    uint64_t probe() const { return probe_op<Scalar>([&](const Scalar* x, Scalar* y) { op.raw_apply(x, y); }, M.rows()); }
    static std::string name() { return std::string("SymEigsShiftSolver<SparseSymShiftSolve<") + SCALAR_NAME + ">>"; }
};
template <typename Scalar>  // Scalar complex
struct KHermDense
{
    static constexpr bool sweep = true;
    using Op = Counted<Spectra::DenseHermMatProd<Scalar>>;
    using Solver = Spectra::HermEigsSolver<Op>;
    Eigen::Matrix<Scalar, -1, -1> M;
    Op op;
    explicit KHermDense(const Subject& S) : M(cast_mat<Scalar>(S.A)), op(M) {}
    std::unique_ptr<Solver> make(const Subject& S) { return std::make_unique<Solver>(op, S.nev, S.ncv); }
    uint64_t probe() const { return probe_op<Scalar>([&](const Scalar* x, Scalar* y) { op.raw_apply(x, y); }, M.rows()); }
    static std::string name() { return std::string("HermEigsSolver<DenseHermMatProd<complex<") + SCALAR_NAME + ">>>"; }
};
template <typename Scalar>
struct KHermSparse
{
    static constexpr bool sweep = false;
    using Op = Counted<Spectra::SparseHermMatProd<Scalar>>;
    using Solver = Spectra::HermEigsSolver<Op>;
    Eigen::SparseMatrix<Scalar> M;
    Op op;
    static Eigen::SparseMatrix<Scalar> mk(const Subject& S)
    {
        Eigen::SparseMatrix<Scalar> m = cast_mat<Scalar>(S.A).sparseView();
        m.makeCompressed();
        return m;
    }
    explicit KHermSparse(const Subject& S) : M(mk(S)), op(M) {}
    std::unique_ptr<Solver> make(const Subject& S) { return std::make_unique<Solver>(op, S.nev, S.ncv); }
    uint64_t probe() const { return probe_op<Scalar>([&](const Scalar* x, Scalar* y) { op.raw_apply(x, y); }, M.rows()); }
    static std::string name() { return std::string("HermEigsSolver<SparseHermMatProd<complex<") + SCALAR_NAME + ">>>"; }
};

// ---- run plan ---------------------------------------------------------------------------------------------------
struct Plan
{
    std::string prop;
    int depth = 3;
    bool sweep = true;       // the depth-2 ARGS sweep
    bool thorough = false;
    bool light = false;      // large complete families in the thorough tier: depth 3 and the quick-tier sweep parameters
};
static Plan PLAN;

// under AddressSanitizer (about 20x slower) the large exhaustive families are sampled; the plain flavour of the same
// harness (Eigen index assertions on, operator-argument validation, work bound, finiteness) covers every index
static bool asan_skip(uint64_t idx)
{
#ifdef VF_ASAN
    return idx % (PLAN.thorough ? 8 : 32) != 0;
#else
    (void) idx;
    return false;
#endif
}

static const SortRule SYM_RULES[5] = {SortRule::LargestMagn, SortRule::LargestAlge, SortRule::SmallestMagn, SortRule::SmallestAlge, SortRule::BothEnds};
static const SortRule SYM_SORT[4] = {SortRule::LargestAlge, SortRule::LargestMagn, SortRule::SmallestAlge, SortRule::SmallestMagn};

// fill the matrix-dependent part of a subject: reference spectrum, norms, start vectors
static void prepare_matrix(Subject& S, const MatCL& A, const std::string& desc)
{
    S.A = A;
    S.n = A.rows();
    S.hermitian = true;
    Eigen::SelfAdjointEigenSolver<MatCL> es(A);
    S.ref = es.eigenvalues().template cast<CL>();
    S.normA = 0;
    for (int i = 0; i < S.n; i++) S.normA = std::max(S.normA, std::abs(S.ref[i]));
    const int n = S.n;
    const MatCL Qr = es.eigenvectors();
    S.starts.clear();
    VecCL v(n);
    v.setZero(); v[0] = 1; S.starts.push_back(v);                                  // 0: e1
    for (int i = 0; i < n; i++) v[i] = i + 1; S.starts.push_back(v);               // 1: ramp (generic)
    S.starts.push_back(Qr.col(0) + Qr.col(1));                                     // 2: two-dimensional invariant subspace
    S.starts.push_back(Qr.col(n - 1));                                             // 3: eigenvector
    v.setOnes(); v *= CL(1e15L); S.starts.push_back(v);                            // 4: ones, un-normalized (norm ~1e15)
    for (int i = 0; i < n; i++) v[i] = CL(LD(i % 2 ? -1 : 1) * 1e-15L); S.starts.push_back(v);  // 5: alternating, tiny norm
    for (int i = 1; i < n; i++) { v.setZero(); v[i] = 1; S.starts.push_back(v); }  // e_i
    for (int i = 0; i + 1 < n; i++) S.starts.push_back(Qr.col(i));                 // the other eigenvectors
    S.starts.push_back(Qr.col(0) + Qr.col(n - 1));
    if (n >= 3) S.starts.push_back(Qr.col(0) + Qr.col(1) + Qr.col(2));
    S.key = desc;
}

template <typename Scalar> static LD eps_of() { return LD(std::numeric_limits<typename Eigen::NumTraits<Scalar>::Real>::epsilon()); }

template <class K>
static void explore_subject(Subject S, int nev, int ncv, int rot, Local& L, const std::string& replay)
{
    using Scalar = typename K::Op::Scalar;
    S.nev = nev;
    S.ncv = ncv;
    S.eps = eps_of<Scalar>();
    S.key = K::name() + "|" + S.key + "|nev=" + num(nev) + ",ncv=" + num(ncv) + (S.shift_mode ? ",sigma=" + gnum(S.sigma.real()) : "");
    L.count("subjects");
    const SortRule r0 = SYM_RULES[rot % 5], r1 = SYM_RULES[(rot + 2) % 5];
    // ---- history search
    std::vector<OpDesc> ops;
    ops.push_back(op_init0());
    ops.push_back(op_initv(1));
    ops.push_back(op_initv(2));
    ops.push_back(op_compute(r0, 1000, std::max<LD>(1e-10L, 50 * S.eps), SYM_SORT[rot % 4]));
    ops.push_back(op_compute(r1, 1, std::max<LD>(1e-6L, 1000 * S.eps), SYM_SORT[(rot + 1) % 4]));
    ops.push_back(op_compute(r0, 0, std::max<LD>(1e-10L, 50 * S.eps), SYM_SORT[(rot + 2) % 4]));
    if (PLAN.prop == "C06") ops.push_back(op_share(1, r0, 1000, std::max<LD>(1e-10L, 50 * S.eps), SYM_SORT[rot % 4]));
    // an earlier compute() that throws at its very end (sorting rule the solver does not support)
    if (PLAN.prop == "C06") ops.push_back(op_compute(r0, 5, 1e-10L, SortRule::LargestReal));
    try
    {
        PropOracle<K> po(PLAN.prop, S, ops, L, replay);
        Explorer<K> ex{S, ops, PLAN.prop == "C06" ? PLAN.depth - 1 : PLAN.depth, L};
        ex.tail_pairs = (PLAN.prop == "C06");
        ex.oracle = [&](const std::vector<int>& h, const Obs& b, const Obs& a, Inst<K>& inst) { po(h, b, a, inst); };
        ex.nondet = [&](const std::string& c, const std::string& d) { L.violate(S.key + "|" + c, replay, d); };
        ex.run();
        // ---- complete depth-2 sweep: init(v); compute(rule, maxit, tol) for all v in VEC(A)
        if (PLAN.sweep && K::sweep && PLAN.prop != "C06")  // (for C06 the sweep would compare a fresh object with itself)
        {
            static const long MAXIT_T[6] = {0, 1, 2, 3, 10, 1000};
            static const long MAXIT_Q[4] = {0, 1, 3, 1000};
            const LD TOL_T[5] = {4 * S.eps, 1e-14L, 1e-10L, 1e-6L, 1e-2L};
            const LD TOL_Q[3] = {4 * S.eps, 1e-10L, 1e-2L};
            const bool full = PLAN.thorough && !PLAN.light;
            const int nm = full ? 6 : 4, nt = full ? 5 : 3;
            std::vector<OpDesc> sops;
            const size_t nstart = full ? S.starts.size() : std::min<size_t>(S.starts.size(), 6);
            for (size_t j = 0; j < nstart; j++) sops.push_back(op_initv(int(j)));
            const int ninit = int(sops.size());
            sops.push_back(op_init0());
            int c = 0;
            for (int r = 0; r < 5; r++)
                for (int m = 0; m < nm; m++)
                    for (int t = 0; t < nt; t++) sops.push_back(op_compute(SYM_RULES[r], full ? MAXIT_T[m] : MAXIT_Q[m], full ? TOL_T[t] : TOL_Q[t], SYM_SORT[(c++) % 4]));
            PropOracle<K> so(PLAN.prop, S, sops, L, replay);
            for (int vi = 0; vi <= ninit; vi++)
            {
                // tolerances below ~eps are only asked of the scalar type that can deliver them
                for (int ci = ninit + 1; ci < int(sops.size()); ci++)
                {
                    if (sops[ci].tol < 4 * S.eps) continue;
                    Inst<K> inst(S);
                    L.traces++;
                    Obs o0 = inst.observe();
                    Obs a = inst.apply(sops[vi]);
                    L.transitions++;
                    if (a.threw) { L.count("sweep_init_threw_" + a.extype); if (PLAN.prop == "C13") so({vi}, o0, a, inst); break; }
                    Obs b = inst.apply(sops[ci]);
                    L.transitions++;
                    so({vi, ci}, a, b, inst);
                }
            }
        }
    }
    catch (const std::invalid_argument& e)
    {
        // the operator rejected the shift (exactly singular A - sigma I): not a subject
        L.count("subject_rejected_by_operator");
    }
}

// shifts for a matrix: away from every eigenvalue by at least 1e-3 * max(1, ||A||)
static std::vector<LD> shifts_for(const Subject& S, bool quick)
{
    std::vector<LD> cand;
    const int n = S.n;
    const LD lo = S.ref[0].real(), hi = S.ref[n - 1].real(), sc = S.normA > 0 ? S.normA : LD(1);
    cand.push_back(lo - 0.37L * sc);
    cand.push_back((S.ref[n / 2].real() + S.ref[n / 2 - 1].real()) / 2 + 0.0123L * sc);
    if (!quick)
    {
        cand.push_back(hi + 0.1L * sc);
        cand.push_back(S.ref[0].real() + 1e-3L * sc);
        cand.push_back(0.3L * sc);
    }
    std::vector<LD> out;
    for (LD s : cand)
    {
        LD md = std::numeric_limits<LD>::infinity();
        for (int i = 0; i < n; i++) md = std::min(md, std::abs(S.ref[i].real() - s));
        if (md >= 1e-4L * sc) out.push_back(s);
    }
    return out;
}
static void set_shift(Subject& S, LD sigma)
{
    S.shift_mode = 1;
    S.sigma = sigma;
    LD mx = 0, mn = std::numeric_limits<LD>::infinity();
    for (int i = 0; i < S.n; i++)
    {
        LD d = std::abs(S.ref[i].real() - sigma);
        mx = std::max(mx, d);
        mn = std::min(mn, d);
    }
    S.norm_shifted = mx;
    S.inv_norm_shifted = 1 / mn;
    S.cond_shifted = mx / mn;
}

enum KindMask { K_DENSE = 1, K_SPARSE = 2, K_USER = 4, K_SHIFT = 8, K_SHIFT_SPARSE = 16 };

static void run_real_matrix(const MatL& A, const std::string& desc, uint64_t idx, int kinds, Local& L, const std::string& replay)
{
    Subject base;
    prepare_matrix(base, A.cast<CL>(), desc);
    const int n = base.n;
    int c = 0;
    for (auto cfg : cfg_sym(n))
    {
        const int rot = int((idx + c++) % 20);
        if (kinds & K_DENSE) explore_subject<KSymDense<S0>>(base, cfg.first, cfg.second, rot, L, replay);
        if (kinds & K_SPARSE) explore_subject<KSymSparse<S0>>(base, cfg.first, cfg.second, rot + 1, L, replay);
        if (kinds & K_USER) explore_subject<KSymUser<S0>>(base, cfg.first, cfg.second, rot + 2, L, replay);
        if (kinds & (K_SHIFT | K_SHIFT_SPARSE))
            for (LD sg : shifts_for(base, !PLAN.thorough))
            {
                Subject s2 = base;
                set_shift(s2, sg);
                if (kinds & K_SHIFT) explore_subject<KShiftDense<S0>>(s2, cfg.first, cfg.second, rot + 3, L, replay);
                if (kinds & K_SHIFT_SPARSE) explore_subject<KShiftSparse<S0>>(s2, cfg.first, cfg.second, rot + 4, L, replay);
            }
    }
}
static void run_herm_matrix(const MatCL& A, const std::string& desc, uint64_t idx, bool sparse, Local& L, const std::string& replay)
{
    Subject base;
    prepare_matrix(base, A, desc);
    int c = 0;
    for (auto cfg : cfg_sym(base.n))
    {
        const int rot = int((idx + c++) % 20);
        explore_subject<KHermDense<C0>>(base, cfg.first, cfg.second, rot, L, replay);
        if (sparse) explore_subject<KHermSparse<C0>>(base, cfg.first, cfg.second, rot + 1, L, replay);
    }
}

static const LD SIGMA[6] = {1e-8L, 1e-4L, 1, 1e4L, 1e6L, 1e8L};

int main(int argc, char** argv)
{
    Config cfg = parse_args(argc, argv, 200, 1500);
    for (int i = 1; i < argc; i++)
        if (std::string(argv[i]) == "--prop" && i + 1 < argc) PLAN.prop = argv[i + 1];
    if (PLAN.prop.empty()) PLAN.prop = "C01";
    PLAN.thorough = cfg.thorough();
    PLAN.depth = cfg.thorough() ? 4 : 3;
#ifdef VF_ASAN
    PLAN.depth = cfg.thorough() ? 3 : 2;
#endif
#ifdef VF_ASAN
    if (cfg.quick()) PLAN.sweep = false;  // quick asan: the history search only (the plain flavour runs the sweep)
#endif
    if (const char* d = getenv("VERIF_DEPTH")) PLAN.depth = atoi(d);
    Runner R(PLAN.prop, cfg);
    const bool q = cfg.quick();

    R.run("sint3", sint_count(3, 3), [&](uint64_t idx, Local& L) {
        if (asan_skip(idx)) { L.count("skipped_asan_sampling"); return; }
        run_real_matrix(sint_get(3, D3(), idx), "sint3:" + num(idx), idx, K_DENSE | K_SHIFT | (idx % 7 == 0 ? K_SPARSE | K_USER | K_SHIFT_SPARSE : 0), L, "sint3#" + num(idx));
    });
    {
        // one index per structured matrix (fine-grained, so that the wall-clock budget is honoured between matrices)
        std::vector<std::pair<int, int>> sm;
        for (int n : {5, 6, 8})
        {
            if (q && n == 8) continue;
#ifdef VF_ASAN
            if (n == 8) continue;
#endif
            for (int s = 0; s < sstruct_count(n); s++) sm.push_back({n, s});
        }
        R.run("struct", sm.size(), [&](uint64_t w, Local& L) {
            const int n = sm[w].first, s = sm[w].second;
            std::string nm;
            MatL A = sstruct_get(n, s, &nm);
            run_real_matrix(A, "struct" + num(n) + ":" + nm, s, K_DENSE | K_SPARSE | K_USER | K_SHIFT | K_SHIFT_SPARSE, L, "struct#" + num(w));
        });
    }
    {
        const int n = 6;
        const uint64_t nspec = uint64_t(lcat_count()) * qcat_count(n) * 6;
        R.run("spec6", nspec, [&](uint64_t idx, Local& L) {
            if (asan_skip(idx * 4)) { L.count("skipped_asan_sampling"); return; }
            const int l = idx % lcat_count(), qq = (idx / lcat_count()) % qcat_count(n), sc = idx / (lcat_count() * qcat_count(n));
            if (q && !(sc == 0 || sc == 2 || sc == 4) ) { L.count("skipped_quick"); return; }
            if (q && (qq == 1 || qq >= 5)) { L.count("skipped_quick"); return; }
            std::string ln, qn;
            VecL d = lcat_get(n, l, &ln);
            MatL Q = qcat_get(n, qq, &qn);
            MatL A = Q * d.asDiagonal() * Q.transpose() * SIGMA[sc];
            A = ((A + A.transpose()) / 2).eval();
            run_real_matrix(A, "spec6:" + ln + ":" + qn + ":x" + gnum(SIGMA[sc]), idx, K_DENSE | K_SHIFT, L, "spec6#" + num(idx));
        });
    }
    R.run("hint3", hint_count(3), [&](uint64_t idx, Local& L) {
        if (asan_skip(idx)) { L.count("skipped_asan_sampling"); return; }
        if (q && idx % 4 != 0) { L.count("skipped_quick"); return; }
        run_herm_matrix(hint_get(3, idx), "hint3:" + num(idx), idx, idx % 16 == 0, L, "hint3#" + num(idx));
    });
    {
        const int n = 6;
        R.run("hspec6", uint64_t(lcat_count()) * 2, [&](uint64_t idx, Local& L) {
            const int l = idx % lcat_count(), ph = idx / lcat_count();
            std::string ln;
            VecL d = lcat_get(n, l, &ln);
            VecL uu(n);
            for (int i = 0; i < n; i++) uu[i] = i + 1;
            MatCL U = householder(uu).cast<CL>();
            for (int i = 0; i < n; i++)
            {
                const LD th = ph == 0 ? LD(i) * 0.7L : LD(i * i) * 0.3L + 0.1L;
                U.row(i) *= CL(std::cos(th), std::sin(th));
            }
            MatCL A = U * d.cast<CL>().asDiagonal() * U.adjoint();
            A = ((A + A.adjoint()) / CL(2)).eval();
            run_herm_matrix(A, "hspec6:" + ln + ":ph" + num(ph), idx, true, L, "hspec6#" + num(idx));
        });
    }
    if (!q && !NARROW)
    {
        const int depth_saved = PLAN.depth;
        PLAN.light = true;
        PLAN.depth = std::min(PLAN.depth, 3);
        R.run("sint4", sint_count(4, 3), [&](uint64_t idx, Local& L) {
        if (asan_skip(idx)) { L.count("skipped_asan_sampling"); return; }
            run_real_matrix(sint_get(4, D3(), idx), "sint4:" + num(idx), idx, K_DENSE | (idx % 5 == 0 ? K_SHIFT : 0), L, "sint4#" + num(idx));
        });
        PLAN.light = false;
        PLAN.depth = depth_saved;
        const int n = 8;
        const uint64_t nspec = uint64_t(lcat_count()) * qcat_count(n);
        R.run("spec8", nspec, [&](uint64_t idx, Local& L) {
            const int l = idx % lcat_count(), qq = (idx / lcat_count()) % qcat_count(n);
            std::string ln, qn;
            VecL d = lcat_get(n, l, &ln);
            MatL Q = qcat_get(n, qq, &qn);
            MatL A = Q * d.asDiagonal() * Q.transpose();
            A = ((A + A.transpose()) / 2).eval();
            run_real_matrix(A, "spec8:" + ln + ":" + qn, idx, K_DENSE | K_SHIFT, L, "spec8#" + num(idx));
        });
    }
    else
    {
        // quick: every 27th matrix of sint4 (the complete family is in the thorough tier)
        R.run("sint4", sint_count(4, 3), [&](uint64_t idx, Local& L) {
        if (asan_skip(idx)) { L.count("skipped_asan_sampling"); return; }
            if (idx % 27 != 0) { L.count("skipped_quick"); return; }
            run_real_matrix(sint_get(4, D3(), idx), "sint4:" + num(idx), idx, K_DENSE, L, "sint4#" + num(idx));
        });
    }
    std::string rule = "E1 history search depth " + num(PLAN.depth) + " over {init(), init(v1), init(v2), compute x3" + (PLAN.prop == "C06" ? ", second-solver" : "") +
        "} + complete depth-2 sweep init(v);compute(rule,maxit,tol) over VEC(A) x 5 rules x 6 maxit x 5 tol, per (matrix, kind, every legal nev/ncv[, shift]); scalar " + SCALAR_NAME +
        "; a state is non-trivial when compute returned >=1 pair (distinct = distinct (subject, returned bits))";
    return R.finish(rule, {"reference spectra from Eigen::SelfAdjointEigenSolver in long double", "rounding allowances fixed a priori: 1e3*eps*||A|| (residual), 1e3*eps (unit norm), 1e4*eps (orthonormality)",
                           "shift-and-invert residual bound tol*max(eps^(2/3),|nu|)/|nu|*||A-sigma I|| + 1e3*eps*kappa_sigma*cond(A-sigma I)*||A-sigma I||"});
}

// C17 - LOBPCG: on success, the k smallest eigenvalues of (A, B) in ascending order, eigenvectors() an n-by-k matrix X
// with X'BX = I, residuals() = A X - B X diag(lambda) with every column norm below tol*n; otherwise the status says so.
// E1 (depth 1): the complete cross product of an enumerated catalogue - no random draws:
//   A   sparse symmetric, n in {12,16,20}: tridiagonal with k well separated small diagonal entries, 2-level coupling
//       strengths, and a 2-D 5-point Laplacian-like matrix with a separated low end,
//   B   none | diagonal SPD | tridiagonal SPD,      preconditioner none | inverse diagonal of A,
//   k   1..3 (5k < n),      X0  leading coordinate vectors | Vandermonde columns | shifted ones patterns (full rank),
//   maxit in {5, 50},  tol in {1e-7, 1e-5}.
// Vacuity rule: if fewer than half of the subjects reach Success the harness exits with status 3 (broken machinery).
#include "engine/common.h"
#include "engine/oracle.h"
#include <Eigen/Sparse>
#include <Eigen/Eigenvalues>
#include <Spectra/contrib/LOBPCGSolver.h>

using namespace vf;
using namespace Spectra;
using SpMat = Eigen::SparseMatrix<double>;

static MatL make_A(int n, int kind, int k)
{
    MatL A = MatL::Zero(n, n);
    if (kind < 2)
    {
        const LD c = kind == 0 ? LD(0.25) : LD(1);
        for (int i = 0; i < n; i++)
        {
            A(i, i) = i < k ? LD(1 + i) : LD(30 + 2 * i);
            if (i + 1 < n) A(i, i + 1) = A(i + 1, i) = c;
        }
    }
    else
    {
        // 2-D 5-point pattern on an (n/4) x 4 grid, low end separated by a diagonal lift on all but the first k nodes
        const int cols = 4, rows = n / 4;
        for (int r = 0; r < rows; r++)
            for (int c = 0; c < cols; c++)
            {
                const int i = r * cols + c;
                A(i, i) = 4 + (i < k ? LD(0.1) * i : LD(40));
                if (c + 1 < cols) A(i, i + 1) = A(i + 1, i) = -1;
                if (r + 1 < rows) A(i, i + cols) = A(i + cols, i) = -1;
            }
    }
    return A;
}
static MatL make_B(int n, int kind)
{
    MatL B = MatL::Identity(n, n);
    if (kind == 1) for (int i = 0; i < n; i++) B(i, i) = 1 + LD(0.5) * (i % 3);
    if (kind == 2) for (int i = 0; i < n; i++) { B(i, i) = 3; if (i + 1 < n) B(i, i + 1) = B(i + 1, i) = LD(0.5); }
    return B;
}
static MatL make_X0(int n, int k, int kind)
{
    MatL X = MatL::Zero(n, k);
    for (int j = 0; j < k; j++)
        for (int i = 0; i < n; i++)
        {
            if (kind == 0) X(i, j) = (i == j) ? 1 : 0;
            else if (kind == 1) X(i, j) = std::pow(LD(1) - LD(i) / n, j) * (i < 2 * k + 2 ? 1 : LD(0.01));
            else X(i, j) = ((i + j) % (j + 2) == 0 ? 1 : 0) + (i == j ? 2 : 0);
        }
    return X;
}

int main(int argc, char** argv)
{
    Config cfg = parse_args(argc, argv, 240, 900);
    Runner R("C17", cfg);
    struct Sub { int n, akind, bkind, prec, k, x0, maxit, tol; };
    std::vector<Sub> subs;
    for (int n : {12, 16, 20})
        for (int ak = 0; ak < 3; ak++)
            for (int bk = 0; bk < 3; bk++)
                for (int pr = 0; pr < 2; pr++)
                    for (int k = 1; k <= 3; k++)
                        for (int x0 = 0; x0 < 3; x0++)
                            for (int mi = 0; mi < 2; mi++)
                                for (int tl = 0; tl < 2; tl++)
                                    if (5 * k < n) subs.push_back({n, ak, bk, pr, k, x0, mi, tl});
    R.run("catalogue", subs.size(), [&](uint64_t idx, Local& L) {
        const Sub s = subs[idx];
        const int n = s.n, k = s.k;
        const int maxit = s.maxit == 0 ? 5 : 50;
        const double tol = s.tol == 0 ? 1e-7 : 1e-5;
        const std::string key = "LOBPCG|n=" + num(n) + ",A" + num(s.akind) + ",B" + num(s.bkind) + ",prec" + num(s.prec) + ",k=" + num(k) + ",X0_" + num(s.x0) + ",maxit=" + num(maxit) + ",tol=" + std::string(gnum(tol));
        const std::string rp = "catalogue#" + num(idx);
        auto viol = [&](const std::string& c, const std::string& d) { L.violate(key + "|" + c, rp, d); };
        const MatL A = make_A(n, s.akind, k), B = make_B(n, s.bkind), X0 = make_X0(n, k, s.x0);
        Eigen::GeneralizedSelfAdjointEigenSolver<MatL> ref(A, B);
        SpMat As = Eigen::MatrixXd(A.cast<double>()).sparseView(), Bs = Eigen::MatrixXd(B.cast<double>()).sparseView(), Xs = Eigen::MatrixXd(X0.cast<double>()).sparseView();
        L.evaluations++;
        L.traces++;
        try
        {
            LOBPCGSolver<double> solver(As, Xs);
            if (s.bkind) solver.setB(Bs);
            if (s.prec)
            {
                SpMat P(n, n);
                for (int i = 0; i < n; i++) P.insert(i, i) = 1.0 / double(A(i, i));
                solver.setPreconditioner(P);
            }
            solver.compute(maxit, tol);
            L.transitions++;
            const int info = solver.info();
            Fnv f; f.str(key);
            L.states.insert(f.h);
            if (info != Eigen::Success) { L.count("not_success"); return; }
            L.count("success");
            L.distinct.insert(f.h);
            L.sample("{\"subject\": " + jstr(key) + ", \"info\": \"Success\"}", 4);
            Eigen::VectorXd ev = solver.eigenvalues();
            Eigen::MatrixXd X = solver.eigenvectors(), Rs = solver.residuals();
            if (ev.size() != k) { viol("count", "eigenvalues().size()=" + num(long(ev.size())) + " for block size " + num(k)); return; }
            const LD nA = fro(A);
            for (int i = 0; i < k; i++)
            {
                if (!std::isfinite(ev[i])) { viol("nonfinite", "eigenvalue not finite"); return; }
                if (i + 1 < k && ev[i] > ev[i + 1]) viol("order", "eigenvalues not ascending");
                // residual norm < tol*n implies |lambda - reference| <= tol*n / sqrt(lambda_min(B)) (+ rounding)
                const LD err = std::abs(LD(ev[i]) - ref.eigenvalues()[i]), bound = 10 * LD(tol) * n + 1e3L * LD(std::numeric_limits<double>::epsilon()) * nA;
                L.ratio("values", err / bound);
                if (!(err <= bound)) viol("values", "lambda_" + num(i) + "=" + gnum(ev[i]) + " but the reference smallest eigenvalue #" + num(i) + " is " + gnum(ref.eigenvalues()[i]));
            }
            if (X.rows() != n || X.cols() != k) { viol("eigenvectors-shape", "eigenvectors() is " + num(long(X.rows())) + "x" + num(long(X.cols())) + ", expected " + num(n) + "x" + num(k)); return; }
            MatL Xl = X.cast<LD>();
            const LD g = maxabs(MatL(Xl.transpose() * B * Xl - MatL::Identity(k, k)));
            L.ratio("XBX", g / 1e-8L);
            if (!(g <= 1e-8L)) viol("X'BX=I", "max|X'BX - I|=" + gnum(g));
            if (Rs.rows() != n || Rs.cols() != k) { viol("residuals-shape", "residuals() is " + num(long(Rs.rows())) + "x" + num(long(Rs.cols()))); return; }
            MatL Rref = A * Xl - B * Xl * ev.cast<LD>().asDiagonal();
            const LD e = maxabs(MatL(Rs.cast<LD>() - Rref)), eb = 1e3L * LD(std::numeric_limits<double>::epsilon()) * nA * n;
            L.ratio("residuals_identity", e / eb);
            if (!(e <= eb)) viol("residuals", "residuals() differs from A X - B X diag(lambda) by " + gnum(e));
            for (int i = 0; i < k; i++)
                if (!(Rref.col(i).norm() < LD(tol) * n)) viol("residual-norm", "column " + num(i) + " has norm " + gnum(Rref.col(i).norm()) + " >= tol*n = " + gnum(LD(tol) * n));
        }
        catch (const std::exception& e)
        {
            viol("exception", e.what());
        }
    });
    const uint64_t succ = R.total.counters["success"], all = subs.size();
    int rc = R.finish("the complete cross product of the catalogue above (no random draws); states = subjects; non-trivial = subjects that reached Success",
                      {"reference spectrum from Eigen::GeneralizedSelfAdjointEigenSolver in long double", "X'BX = I to 1e-8 (the solver orthonormalizes by Cholesky of X'BX)",
                       "the catalogue is restricted to pencils whose k smallest eigenvalues are well separated: the solver caps its iterations at min(n, maxit)"});
    if (cfg.only.empty() && succ * 2 < all)
    {
        fprintf(stderr, "VACUOUS: only %llu of %llu subjects reached Success\n", (unsigned long long) succ, (unsigned long long) all);
        return 3;
    }
    return rc;
}

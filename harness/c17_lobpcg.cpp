// C17 - LOBPCG: on success, the k smallest eigenvalues of (A, B) in ascending order, eigenvectors() an n-by-k matrix X
// with X'BX = I, residuals() = A X - B X diag(lambda) with every column norm below tol*n; otherwise the status says so.
// E1: every history of up to 3 (quick) / 5 (thorough) compute() calls on one solver object, for the complete cross
// product of an enumerated catalogue - no random draws:
//   A   sparse symmetric, n in {12,16,20}: tridiagonal with k well separated small diagonal entries, 2-level coupling
//       strengths, and a 2-D 5-point Laplacian-like matrix with a separated low end,
//   B   none | diagonal SPD | tridiagonal SPD,      preconditioner none | inverse diagonal of A,
//   k   1..3 (5k < n),      X0  leading coordinate vectors | Vandermonde columns | shifted ones patterns (full rank),
//   compute arguments (maxit, tol) in {(5,1e-7), (50,1e-7), (5,1e-5), (50,1e-5), (50,1e-11), (0,1e-7), (1,1e-12)}.
// Vacuity rule: if fewer than half of the subjects reach Success the harness exits with status 3 (broken machinery).
#include "engine/common.h"
#include "engine/oracle.h"
#include <Eigen/Sparse>
#include <Eigen/Eigenvalues>
#include <Spectra/contrib/LOBPCGSolver.h>

using namespace vf;
using namespace Spectra;
#ifndef VF_SCALAR
#define VF_SCALAR double
#endif
using SC = VF_SCALAR;  // the library's default is long double (built as c17_lobpcg_ld in the thorough tier)
using SpMat = Eigen::SparseMatrix<SC>;
using MatS = Eigen::Matrix<SC, Eigen::Dynamic, Eigen::Dynamic>;
using VecS = Eigen::Matrix<SC, Eigen::Dynamic, 1>;
static const bool IS_DOUBLE = std::is_same<SC, double>::value;
static const LD UEPS = LD(std::numeric_limits<SC>::epsilon());

static MatL make_A(int n, int kind, int k)
{
    MatL A = MatL::Zero(n, n);
    if (kind < 2)
    {
        const LD c = kind == 0 ? LD(0.25) : LD(1);
        for (int i = 0; i < n; i++)
        {
            A(i, i) = i < k ? LD(1 + i) : LD(30 + 2 * i);
            if (i + 1 < n) A(i, i + 1) = A(i + 1, i) = c;
        }
    }
    else
    {
        // 2-D 5-point pattern on an (n/4) x 4 grid, low end separated by a diagonal lift on all but the first k nodes
        const int cols = 4, rows = n / 4;
        for (int r = 0; r < rows; r++)
            for (int c = 0; c < cols; c++)
            {
                const int i = r * cols + c;
                A(i, i) = 4 + (i < k ? LD(0.1) * i : LD(40));
                if (c + 1 < cols) A(i, i + 1) = A(i + 1, i) = -1;
                if (r + 1 < rows) A(i, i + cols) = A(i + cols, i) = -1;
            }
    }
    return A;
}
static MatL make_B(int n, int kind)
{
    MatL B = MatL::Identity(n, n);
    if (kind == 1) for (int i = 0; i < n; i++) B(i, i) = 1 + LD(0.5) * (i % 3);
    if (kind == 2) for (int i = 0; i < n; i++) { B(i, i) = 3; if (i + 1 < n) B(i, i + 1) = B(i + 1, i) = LD(0.5); }
    return B;
}
static MatL make_X0(int n, int k, int kind)
{
    MatL X = MatL::Zero(n, k);
    for (int j = 0; j < k; j++)
        for (int i = 0; i < n; i++)
        {
            if (kind == 0) X(i, j) = (i == j) ? 1 : 0;
            else if (kind == 1) X(i, j) = std::pow(LD(1) - LD(i) / n, j) * (i < 2 * k + 2 ? 1 : LD(0.01));
            else X(i, j) = ((i + j) % (j + 2) == 0 ? 1 : 0) + (i == j ? 2 : 0);
        }
    return X;
}

// Arguments of one compute() call; the first four are the original depth-1 catalogue (their keys are unchanged).
struct Arg { int maxit; double tol; };
static const Arg ARGS[] = {{5, 1e-7}, {50, 1e-7}, {5, 1e-5}, {50, 1e-5}, {50, 1e-11}, {0, 1e-7}, {1, 1e-12}};
static const int NARGS = 7;
static std::string arg_str(const Arg& a) { return "C(" + num(a.maxit) + "," + std::string(gnum(a.tol)) + ")"; }

struct Sub { int n, akind, bkind, prec, k, x0; };

// canonical state of a solver object: everything a later compute() or an accessor can depend on
static uint64_t canon(LOBPCGSolver<SC>& s)
{
    Fnv f;
    MatS X = MatS(s.X);
    f.pod(int(X.rows())); f.pod(int(X.cols()));
    for (Eigen::Index j = 0; j < X.cols(); j++) for (Eigen::Index i = 0; i < X.rows(); i++) f.pod(X(i, j));
    for (Eigen::Index i = 0; i < s.m_evalues.size(); i++) f.pod(s.m_evalues[i]);
    MatS R = MatS(s.m_residuals);
    for (Eigen::Index j = 0; j < R.cols(); j++) for (Eigen::Index i = 0; i < R.rows(); i++) f.pod(R(i, j));
    f.pod(int(s.m_info));
    return f.h;
}

// The oracle of the property, evaluated on the state right after compute(maxit, tol).
static void check_state(LOBPCGSolver<SC>& solver, const Sub& s, double tol, const MatL& A, const MatL& B, const VecL& refvals,
                        const std::string& key, const std::string& rp, Local& L, bool d1)
{
    const int n = s.n, k = s.k;
    auto viol = [&](const std::string& c, const std::string& d) { L.violate(key + "|" + c, rp, d); };
    const int info = solver.info();
    if (info != Eigen::Success) { L.count("not_success"); return; }
    L.count("success");
    if (d1) L.count("d1_success");
    Fnv f; f.str(key);
    L.distinct.insert(f.h);
    L.sample("{\"subject\": " + jstr(key) + ", \"info\": \"Success\"}", 4);
    VecS ev = solver.eigenvalues();
    MatS X = solver.eigenvectors(), Rs = solver.residuals();
    if (ev.size() != k) { viol("count", "eigenvalues().size()=" + num(long(ev.size())) + " for block size " + num(k)); return; }
    const LD nA = fro(A);
    if (X.rows() != n || X.cols() != k) { viol("eigenvectors-shape", "eigenvectors() is " + num(long(X.rows())) + "x" + num(long(X.cols())) + ", expected " + num(n) + "x" + num(k)); return; }
    MatL Xl = X.cast<LD>();
    // signature of the known finding C17-spurious-zero-pair: a (numerically) zero eigenvector column
    std::string sig;
    for (int i = 0; i < k; i++) if (Xl.col(i).norm() < 1e-3L) sig = " [zero eigenvector column " + num(i) + "]";
    for (int i = 0; i < k; i++)
    {
        if (!std::isfinite(double(ev[i]))) { viol("nonfinite", "eigenvalue not finite"); return; }
        if (i + 1 < k && ev[i] > ev[i + 1]) viol("order", "eigenvalues not ascending");
        // residual norm < tol*n implies |lambda - reference| <= tol*n / sqrt(lambda_min(B)) (+ rounding)
        const LD err = std::abs(LD(ev[i]) - refvals[i]), bound = 10 * LD(tol) * n + 1e3L * UEPS * nA;
        L.ratio("values", err / bound);
        if (!(err <= bound)) viol("values", "lambda_" + num(i) + "=" + gnum(ev[i]) + " but the reference smallest eigenvalue #" + num(i) + " is " + gnum(refvals[i]) + sig);
    }
    const LD g = maxabs(MatL(Xl.transpose() * B * Xl - MatL::Identity(k, k)));
    L.ratio("XBX", g / 1e-8L);
    if (!(g <= 1e-8L)) viol("X'BX=I", "max|X'BX - I|=" + gnum(g) + sig);
    if (Rs.rows() != n || Rs.cols() != k) { viol("residuals-shape", "residuals() is " + num(long(Rs.rows())) + "x" + num(long(Rs.cols()))); return; }
    MatL Rref = A * Xl - B * Xl * ev.cast<LD>().asDiagonal();
    const LD e = maxabs(MatL(Rs.cast<LD>() - Rref)), eb = 1e3L * UEPS * nA * n;
    L.ratio("residuals_identity", e / eb);
    if (!(e <= eb)) viol("residuals", "residuals() differs from A X - B X diag(lambda) by " + gnum(e));
    // the tolerance is the one of the compute() call that produced this state (the most recent one); the true residual is
    // allowed the rounding of forming A X - B X diag(lambda) in double on top of it
    for (int i = 0; i < k; i++)
        if (!(Rref.col(i).norm() < LD(tol) * n + eb)) viol("residual-norm", "column " + num(i) + " has norm " + gnum(Rref.col(i).norm()) + " >= tol*n = " + gnum(LD(tol) * n) + " (tol of the most recent compute())");
}

int main(int argc, char** argv)
{
    Config cfg = parse_args(argc, argv, 240, 900);
    Runner R("C17", cfg);
    const int depth = cfg.quick() ? 3 : 5;
    std::vector<Sub> subs;
    for (int n : {12, 16, 20})
        for (int ak = 0; ak < 3; ak++)
            for (int bk = 0; bk < 3; bk++)
                for (int pr = 0; pr < 2; pr++)
                    for (int k = 1; k <= 3; k++)
                        for (int x0 = 0; x0 < 3; x0++)
                            if (5 * k < n) subs.push_back({n, ak, bk, pr, k, x0});
    // E1: breadth-first over histories of compute(maxit, tol) calls on ONE solver object (a later compute() continues from
    // the iterate of the earlier one); solver objects are copyable, so a state is a live object; states with the same
    // canonical hash (iterate, eigenvalues, residuals, status) are merged.
    R.run("histories", subs.size(), [&](uint64_t idx, Local& L) {
        const Sub s = subs[idx];
        const int n = s.n, k = s.k;
        const std::string skey = std::string(IS_DOUBLE ? "LOBPCG" : "LOBPCG<longdouble>") + "|n=" + num(n) + ",A" + num(s.akind) + ",B" + num(s.bkind) + ",prec" + num(s.prec) + ",k=" + num(k) + ",X0_" + num(s.x0);
        const std::string rp = "histories#" + num(idx);
        const MatL A = make_A(n, s.akind, k), B = make_B(n, s.bkind), X0 = make_X0(n, k, s.x0);
        Eigen::GeneralizedSelfAdjointEigenSolver<MatL> ref(A, B);
        const VecL refvals = ref.eigenvalues();
        SpMat As = MatS(A.cast<SC>()).sparseView(), Bs = MatS(B.cast<SC>()).sparseView(), Xs = MatS(X0.cast<SC>()).sparseView();
        struct Node { LOBPCGSolver<SC> s; std::string hist; };
        std::vector<Node> frontier;
        std::set<uint64_t> seen;
        try
        {
            LOBPCGSolver<SC> fresh(As, Xs);
            if (s.bkind) fresh.setB(Bs);
            if (s.prec)
            {
                SpMat P(n, n);
                for (int i = 0; i < n; i++) P.insert(i, i) = SC(1) / SC(A(i, i));
                fresh.setPreconditioner(P);
            }
            if (fresh.info() == Eigen::Success) L.violate(skey + "|status-before-compute", rp, "info() is Success before any compute()");
            frontier.push_back({fresh, ""});
        }
        catch (const std::exception& e) { L.violate(skey + "|exception", rp, std::string("constructor: ") + e.what()); return; }
        L.traces++;
        for (int d = 1; d <= depth && !frontier.empty(); d++)
        {
            std::vector<Node> next;
            for (auto& node : frontier)
                for (int a = 0; a < NARGS; a++)
                {
                    const Arg& arg = ARGS[a];
                    const std::string hist = node.hist.empty() ? arg_str(arg) : node.hist + ";" + arg_str(arg);
                    // depth-1 keys keep the format of the original catalogue
                    const std::string key = d == 1 ? skey + ",maxit=" + num(arg.maxit) + ",tol=" + std::string(gnum(arg.tol)) : skey + "|H=" + hist;
                    L.evaluations++;
                    try
                    {
                        LOBPCGSolver<SC> sv(node.s);
                        sv.compute(arg.maxit, SC(arg.tol));
                        L.transitions++;
                        if (d == 1 && a < 4) L.count("d1_total");
                        check_state(sv, s, arg.tol, A, B, refvals, key, rp, L, d == 1 && a < 4);
                        const uint64_t c = canon(sv);
                        L.states.insert(c ^ (idx * 0x9E3779B97F4A7C15ULL));
                        if (seen.insert(c).second) { if (d < depth) next.push_back({sv, hist}); }
                        else L.count("merged_states");
                        if (d >= 2) L.count("histories_depth>=2");
                    }
                    catch (const std::exception& e)
                    {
                        L.violate(key + "|exception", rp, e.what());
                    }
                }
            frontier.swap(next);
        }
    });
    const uint64_t succ = R.total.counters["d1_success"], all = R.total.counters["d1_total"];
    int rc = R.finish("every history of up to " + num(depth) + " compute(maxit,tol) calls (7 argument pairs) on one solver object, for the complete cross product of the catalogue above (no random draws); "
                      "states = distinct (iterate, eigenvalues, residuals, status) per subject, merged in the search; non-trivial = (subject, history) states that reached Success",
                      {"reference spectrum from Eigen::GeneralizedSelfAdjointEigenSolver in long double", "X'BX = I to 1e-8 (the solver orthonormalizes by Cholesky of X'BX)",
                       "the catalogue is restricted to pencils whose k smallest eigenvalues are well separated: the solver caps its iterations at min(n, maxit)",
                       "tol in the residual clause is the tolerance of the most recent compute() call"});
    if (cfg.only.empty() && succ * 2 < all)
    {
        fprintf(stderr, "VACUOUS: only %llu of %llu depth-1 subjects reached Success\n", (unsigned long long) succ, (unsigned long long) all);
        return 3;
    }
    return rc;
}

// C11 (part 2) - SymShiftInvert in all 64 TypeA/TypeB/UploA/UploB/FlagsA/FlagsB combinations (+ StorageIndex long for the
// sparse/sparse pairing) and the composite operators the generalized solvers build from the wrappers:
//   Cholesky mode  inv(L) A inv(L'),  regular-inverse mode  inv(B) A,  shift-and-invert  inv(A - sigma B) B,
//   buckling  inv(K - sigma K_G) K,  Cayley  inv(A - sigma B) (A + sigma B).
// Inputs: ALL symmetric 3x3 A over {-1,0,1} x B in {diag(1,2,3), tridiag(1,4,1), I + ones/2} x sigma in {0.37,-1.2345}
// with (A - sigma B) well conditioned, plus structured pencils of size 1..5.  Oracle: (A - sigma B) * op = I by backward
// error against the FULL symmetric matrices in long double; the triangle of A and of B that the wrapper must not read
// is filled with unrelated numbers (dense) / left out or filled with junk (sparse): outputs must be bit-identical.
#include "engine/common.h"
#include "engine/oracle.h"
#include "engine/alphabet.h"
#include <Eigen/Sparse>
#include <Spectra/MatOp/SymShiftInvert.h>
#include <Spectra/MatOp/DenseSymMatProd.h>
#include <Spectra/MatOp/SparseSymMatProd.h>
#include <Spectra/MatOp/DenseCholesky.h>
#include <Spectra/MatOp/SparseCholesky.h>
#include <Spectra/MatOp/SparseRegularInverse.h>
#include <Spectra/MatOp/internal/SymGEigsCholeskyOp.h>
#include <Spectra/MatOp/internal/SymGEigsRegInvOp.h>
#include <Spectra/MatOp/internal/SymGEigsShiftInvertOp.h>
#include <Spectra/MatOp/internal/SymGEigsBucklingOp.h>
#include <Spectra/MatOp/internal/SymGEigsCayleyOp.h>

using namespace vf;
using namespace Spectra;
using S = double;
static const LD U = LD(std::numeric_limits<double>::epsilon());

struct Pencil
{
    MatL A, B;
    std::string desc, replay;
};

template <int Flags>
static Eigen::Matrix<S, -1, -1, Flags> dense_tri(const MatL& A, int uplo, bool poison)
{
    const int n = A.rows();
    Eigen::Matrix<S, -1, -1, Flags> M(n, n);
    for (int i = 0; i < n; i++)
        for (int j = 0; j < n; j++)
        {
            const bool used = (uplo == Eigen::Lower ? i >= j : i <= j);
            M(i, j) = (used || !poison) ? S(A(i, j)) : S(61.5 + 3 * i - j);
        }
    return M;
}
template <int Flags, typename Idx>
static Eigen::SparseMatrix<S, Flags, Idx> sparse_tri(const MatL& A, int uplo, int content)
{
    const int n = A.rows();
    std::vector<Eigen::Triplet<S, Idx>> t;
    for (int i = 0; i < n; i++)
        for (int j = 0; j < n; j++)
        {
            const bool used = (uplo == Eigen::Lower ? i >= j : i <= j);
            if (used || content == 0) { if (A(i, j) != 0) t.emplace_back(i, j, S(A(i, j))); }
            else if (content == 2) t.emplace_back(i, j, S(61.5 + 3 * i - j));
        }
    Eigen::SparseMatrix<S, Flags, Idx> M(n, n);
    M.setFromTriplets(t.begin(), t.end());
    M.makeCompressed();
    return M;
}
template <class F>
static Eigen::MatrixXd op_matrix(int n, F&& fn)
{
    Eigen::MatrixXd R(n, n);
    Eigen::VectorXd x(n), y(n);
    for (int i = 0; i < n; i++)
    {
        x.setZero();
        x[i] = 1;
        y.setConstant(4321);
        fn(x.data(), y.data());
        R.col(i) = y;
    }
    return R;
}
static bool bits_equal(const Eigen::MatrixXd& a, const Eigen::MatrixXd& b)
{
    return a.rows() == b.rows() && a.cols() == b.cols() && std::memcmp(a.data(), b.data(), sizeof(double) * a.size()) == 0;
}

// storage selection: dense or sparse matrix of triangle `uplo` with clean / junk other triangle
template <bool Sparse, int Flags, typename Idx>
struct Store;
template <int Flags, typename Idx>
struct Store<false, Flags, Idx>
{
    using type = Eigen::Matrix<S, -1, -1, Flags>;
    static type make(const MatL& A, int uplo, bool junk) { return dense_tri<Flags>(A, uplo, junk); }
};
template <int Flags, typename Idx>
struct Store<true, Flags, Idx>
{
    using type = Eigen::SparseMatrix<S, Flags, Idx>;
    static type make(const MatL& A, int uplo, bool junk) { return sparse_tri<Flags, Idx>(A, uplo, junk ? 2 : 1); }
};

template <bool AS, bool BS, int UA, int UB, int FA, int FB, typename IA = int, typename IB = int>
static void t_shiftinv(const Pencil& p, Local& L)
{
    using TA = typename std::conditional<AS, Eigen::Sparse, Eigen::Dense>::type;
    using TB = typename std::conditional<BS, Eigen::Sparse, Eigen::Dense>::type;
    using Op = SymShiftInvert<S, TA, TB, UA, UB, FA, FB, IA, IB>;
    const int n = p.A.rows();
    const std::string cfg = std::string("SymShiftInvert<") + (AS ? "Sparse" : "Dense") + "," + (BS ? "Sparse" : "Dense") + "," + (UA == Eigen::Lower ? "Lower" : "Upper") + "," + (UB == Eigen::Lower ? "Lower" : "Upper") + "," +
        (FA == Eigen::RowMajor ? "Row" : "Col") + "," + (FB == Eigen::RowMajor ? "Row" : "Col") + (std::is_same<IA, long>::value ? ",long" : "") + ">";
    auto viol = [&](const std::string& c, const std::string& d) { L.violate(cfg + "|" + p.desc + "|" + c, p.replay, d); };
    {
        Fnv h;
        h.str(cfg);
        h.str(p.desc);
        L.distinct.insert(h.h);
        L.sample("{\"configuration\": " + jstr(cfg) + ", \"pencil\": " + jstr(p.desc) + "}", 4);
    }
    auto A0 = Store<AS, FA, IA>::make(p.A, UA, false), A1 = Store<AS, FA, IA>::make(p.A, UA, true);
    auto B0 = Store<BS, FB, IB>::make(p.B, UB, false), B1 = Store<BS, FB, IB>::make(p.B, UB, true);
    for (LD sg : {LD(0.37L), LD(-1.2345L)})
    {
        MatL Ms = p.A - LD(S(sg)) * p.B;
        Eigen::FullPivLU<MatL> lu(Ms);
        if (!lu.isInvertible() || fro(Ms) * fro(MatL(lu.inverse())) > 1e4L) { L.count("skipped_ill_conditioned"); continue; }
        try
        {
            Op o0(A0, B0), o1(A1, B1);
            o0.set_shift(S(sg));
            o1.set_shift(S(sg));
            Eigen::MatrixXd R0 = op_matrix(n, [&](const S* x, S* y) { o0.perform_op(x, y); });
            Eigen::MatrixXd R1 = op_matrix(n, [&](const S* x, S* y) { o1.perform_op(x, y); });
            L.evaluations++;
            MatL G = R0.cast<LD>();
            if (!all_finite(G)) { viol("nonfinite", "NaN/Inf"); continue; }
            const LD err = maxabs(MatL(Ms * G - MatL::Identity(n, n))), bound = 1e3L * n * U * (fro(Ms) * fro(G) + 1);
            L.ratio("shift_invert", err / bound);
            if (!(err <= bound)) viol("solve:sigma=" + std::string(gnum(sg)), "max|(A - sigma B) op - I|=" + gnum(err) + " bound=" + gnum(bound));
            if (!bits_equal(R0, R1)) viol("triangle:sigma=" + std::string(gnum(sg)), "output changed when only the unused triangles of A and B were overwritten");
            if (o0.rows() != n || o0.cols() != n) viol("dims", "rows()/cols()");
        }
        catch (const std::exception& e)
        {
            viol("exception:sigma=" + std::string(gnum(sg)), e.what());
        }
    }
}

// expand all 64 combinations from a 6-bit index
template <int K>
static void shiftinv_combo(const Pencil& p, Local& L)
{
    constexpr bool AS = (K & 1) != 0, BS = (K & 2) != 0;
    constexpr int UA = (K & 4) ? Eigen::Upper : Eigen::Lower, UB = (K & 8) ? Eigen::Upper : Eigen::Lower;
    constexpr int FA = (K & 16) ? Eigen::RowMajor : Eigen::ColMajor, FB = (K & 32) ? Eigen::RowMajor : Eigen::ColMajor;
    t_shiftinv<AS, BS, UA, UB, FA, FB>(p, L);
    if (AS && BS && !(K & 48)) t_shiftinv<AS, BS, UA, UB, FA, FB, long, long>(p, L);
}
template <int K>
struct AllCombos
{
    static void run(const Pencil& p, Local& L)
    {
        shiftinv_combo<K>(p, L);
        AllCombos<K - 1>::run(p, L);
    }
};
template <>
struct AllCombos<-1>
{
    static void run(const Pencil&, Local&) {}
};

// ---------------------------------------------------------------- composite operators of the generalized solvers
static void t_composites(const Pencil& p, Local& L)
{
    const int n = p.A.rows();
    auto viol = [&](const std::string& cfg, const std::string& c, const std::string& d) { L.violate(cfg + "|" + p.desc + "|" + c, p.replay, d); };
    Eigen::MatrixXd Ad = p.A.cast<double>(), Bd = p.B.cast<double>();
    Eigen::SparseMatrix<double> As = Ad.sparseView(), Bs = Bd.sparseView();
    const MatL Binv = p.B.inverse();
    const LD cb = fro(p.B) * fro(Binv);
    auto cmp = [&](const std::string& cfg, const Eigen::MatrixXd& got, const MatL& ref, LD cond) {
        L.evaluations++;
        const LD err = maxabs(MatL(got.cast<LD>() - ref)), bound = 1e3L * n * U * cond * std::max(fro(ref), LD(1e-300L));
        L.ratio("composite", err / bound);
        if (!(err <= bound)) viol(cfg, "composite", "max|op - reference|=" + gnum(err) + " bound=" + gnum(bound));
    };
    {
        // Cholesky mode: inv(L) A inv(L'), dense and sparse B
        Eigen::LLT<MatL> llt(p.B);
        MatL Lm = llt.matrixL(), Li = Lm.inverse();
        MatL ref = Li * p.A * Li.transpose();
        DenseSymMatProd<double> op(Ad);
        DenseCholesky<double> bop(Bd);
        SymGEigsCholeskyOp<DenseSymMatProd<double>, DenseCholesky<double>> c(op, bop);
        cmp("SymGEigsCholeskyOp<dense,dense>", op_matrix(n, [&](const S* x, S* y) { c.perform_op(x, y); }), ref, cb);
        // sparse Cholesky permutes: compare the spectrum-defining invariant  W' C W = A  with W = L'-solve matrix ... use similarity:
        SparseSymMatProd<double> ops(As);
        SparseCholesky<double> bops(Bs);
        SymGEigsCholeskyOp<SparseSymMatProd<double>, SparseCholesky<double>> cs(ops, bops);
        Eigen::MatrixXd Cs = op_matrix(n, [&](const S* x, S* y) { cs.perform_op(x, y); });
        Eigen::MatrixXd Wi = op_matrix(n, [&](const S* x, S* y) { bops.upper_triangular_solve(x, y); });  // inv(L')
        // C = inv(L) A inv(L')  <=>  inv(L') C inv(L) ... check  Wi * C * Wi' = inv(B) A inv(B)
        MatL lhs = Wi.cast<LD>() * Cs.cast<LD>() * Wi.cast<LD>().transpose(), rhs = Binv * p.A * Binv;
        L.evaluations++;
        const LD err = maxabs(MatL(lhs - rhs)), bound = 1e3L * n * U * cb * cb * std::max(fro(rhs), LD(1e-300L));
        L.ratio("composite", err / bound);
        if (!(err <= bound)) viol("SymGEigsCholeskyOp<sparse,sparse>", "composite", "inv(L') C inv(L) != inv(B) A inv(B): " + gnum(err));
    }
    {
        // regular-inverse mode: inv(B) A  (B applied by conjugate gradients)
        SparseSymMatProd<double> op(As);
        SparseRegularInverse<double> bop(Bs);
        SymGEigsRegInvOp<SparseSymMatProd<double>, SparseRegularInverse<double>> c(op, bop);
        cmp("SymGEigsRegInvOp", op_matrix(n, [&](const S* x, S* y) { c.perform_op(x, y); }), MatL(Binv * p.A), cb * cb);
    }
    for (LD sg : {LD(0.37L), LD(-1.2345L)})
    {
        const LD s = LD(S(sg));
        MatL Ms = p.A - s * p.B;
        Eigen::FullPivLU<MatL> lu(Ms);
        if (lu.isInvertible() && fro(Ms) * fro(MatL(lu.inverse())) <= 1e4L)
        {
            const LD cm = fro(Ms) * fro(MatL(lu.inverse()));
            using SI = SymShiftInvert<double, Eigen::Dense, Eigen::Dense>;
            SI op(Ad, Bd);
            DenseSymMatProd<double> bop(Bd);
            SymGEigsShiftInvertOp<SI, DenseSymMatProd<double>> c(op, bop);
            c.set_shift(S(sg));
            cmp("SymGEigsShiftInvertOp", op_matrix(n, [&](const S* x, S* y) { c.perform_op(x, y); }), MatL(lu.inverse() * p.B), cm);
            SI op2(Ad, Bd);
            SymGEigsCayleyOp<SI, DenseSymMatProd<double>> cc(op2, bop);
            cc.set_shift(S(sg));
            cmp("SymGEigsCayleyOp", op_matrix(n, [&](const S* x, S* y) { cc.perform_op(x, y); }), MatL(lu.inverse() * (p.A + s * p.B)), cm);
        }
        else L.count("skipped_ill_conditioned");
        // buckling: K = B (positive definite), K_G = A:  inv(K - sigma K_G) K
        MatL Mb = p.B - s * p.A;
        Eigen::FullPivLU<MatL> lub(Mb);
        if (lub.isInvertible() && fro(Mb) * fro(MatL(lub.inverse())) <= 1e4L)
        {
            using SI = SymShiftInvert<double, Eigen::Dense, Eigen::Dense>;
            SI op(Bd, Ad);
            DenseSymMatProd<double> kop(Bd);
            SymGEigsBucklingOp<SI, DenseSymMatProd<double>> c(op, kop);
            c.set_shift(S(sg));
            cmp("SymGEigsBucklingOp", op_matrix(n, [&](const S* x, S* y) { c.perform_op(x, y); }), MatL(lub.inverse() * p.B), fro(Mb) * fro(MatL(lub.inverse())));
        }
        else L.count("skipped_ill_conditioned");
    }
}

static MatL spd_B(int n, int which)
{
    MatL B = MatL::Zero(n, n);
    if (which == 0) for (int i = 0; i < n; i++) B(i, i) = i + 1;
    else if (which == 1) for (int i = 0; i < n; i++) { B(i, i) = 4; if (i + 1 < n) B(i, i + 1) = B(i + 1, i) = 1; }
    else { B = MatL::Constant(n, n, LD(0.5)); for (int i = 0; i < n; i++) B(i, i) = LD(1.5) + LD(0.25) * i; }
    return B;
}

int main(int argc, char** argv)
{
    Config cfg = parse_args(argc, argv, 240, 900);
    Runner R("C11", cfg);
    R.run("pencil3", sint_count(3, 3) * 3, [&](uint64_t idx, Local& L) {
        const uint64_t ai = idx % sint_count(3, 3);
        const int bi = idx / sint_count(3, 3);
        Pencil p{sint_get(3, D3(), ai), spd_B(3, bi), "sint3:" + num(ai) + ":B" + num(bi), "pencil3#" + num(idx)};
        AllCombos<63>::run(p, L);
        t_composites(p, L);
    });
    R.run("sizes", 5 * 3 * 2, [&](uint64_t w, Local& L) {
        const int n = int(w) % 5 + 1, bi = (int(w) / 5) % 3, kind = int(w) / 15;
        MatL A = MatL::Zero(n, n);
        for (int i = 0; i < n; i++)
            for (int j = 0; j < n; j++) A(i, j) = kind == 0 ? ((i == j) ? LD(2 + i) : (std::abs(i - j) == 1 ? LD(-1) : LD(0))) : LD(((i * 3 + j * 3) % 7) - 3) / 2;
        A = ((A + A.transpose()) / 2).eval();
        Pencil p{A, spd_B(n, bi), "size" + num(n) + ":k" + num(kind) + ":B" + num(bi), "sizes#" + num(w)};
        AllCombos<63>::run(p, L);
        t_composites(p, L);
    });
    return R.finish("all 64 (TypeA,TypeB,UploA,UploB,FlagsA,FlagsB) combinations of SymShiftInvert (+ long storage indices) and the five composite generalized operators x every pencil of the alphabets x two shifts; each operator applied to every e_i",
                    {"reference (A - sigma B) in long double from the full symmetric matrices; backward error 1e3*n*eps*(||A - sigma B|| ||X|| + 1)",
                     "pencils whose shifted matrix has condition number above 1e4 are skipped (counted)",
                     "the sparse Cholesky factor carries a fill-reducing permutation: its composite operator is checked through inv(L') C inv(L) = inv(B) A inv(B)"});
}

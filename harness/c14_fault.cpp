// C14 - a failing user operator is contained.  E3: fault-point enumeration.
// For every solver class and a few small subjects (one that converges without a restart, one with several restarts,
// one with a Krylov breakdown) the fault-free run init(v); compute(args) is executed once with counting operators to
// learn N_A, N_B (applications of the A- and the B-operator).  Then, for EVERY k in 1..N (single faults, in the A- and
// in the B-operator) and for pairs (k1 in the first attempt, k2 in the retry), the same calls are replayed on a fresh
// solver whose operator writes garbage into its output and throws a unique exception at its k-th application.
// Oracle: the very same exception (type and id) leaves init()/compute(); after the fault is disarmed, init(v);
// compute(args) on the SAME solver object is bit-identical (values, vectors, counters, status, return value) to a solver
// that never saw a fault; the number of live heap allocations returns to its starting value once everything is
// destroyed; the whole run is executed under AddressSanitizer.
#include "engine/common.h"
#include "engine/oracle.h"
#include "engine/alphabet.h"
#include <Eigen/Sparse>
#include <Spectra/SymEigsSolver.h>
#include <Spectra/SymEigsShiftSolver.h>
#include <Spectra/HermEigsSolver.h>
#include <Spectra/GenEigsSolver.h>
#include <Spectra/GenEigsRealShiftSolver.h>
#include <Spectra/GenEigsComplexShiftSolver.h>
#include <Spectra/SymGEigsSolver.h>
#include <Spectra/SymGEigsShiftSolver.h>
#include <Spectra/DavidsonSymEigsSolver.h>
#include <Spectra/MatOp/DenseSymMatProd.h>
#include <Spectra/MatOp/DenseHermMatProd.h>
#include <Spectra/MatOp/DenseGenMatProd.h>
#include <Spectra/MatOp/DenseSymShiftSolve.h>
#include <Spectra/MatOp/DenseGenRealShiftSolve.h>
#include <Spectra/MatOp/DenseGenComplexShiftSolve.h>
#include <Spectra/MatOp/DenseCholesky.h>
#include <Spectra/MatOp/SparseSymMatProd.h>
#include <Spectra/MatOp/SparseRegularInverse.h>
#include <Spectra/MatOp/SymShiftInvert.h>
#include <memory>
#include <new>

using namespace vf;
using namespace Spectra;

#include "engine/alloc_track.h"

// ---------------------------------------------------------------- faulting operator wrappers
struct FaultEx : std::runtime_error
{
    long id;
    explicit FaultEx(long i) : std::runtime_error("injected operator fault"), id(i) {}
};
struct FaultCtl
{
    long calls = 0, throw_at = -1, id = 0;
    bool silent = false;  // at the fault index: leave NaN in the output and return normally (drives the library's own error paths)
    long calls_compute = 0;  // applications made by init()+compute() (accessors excluded)
    bool hit()
    {
        ++calls;
        return calls == throw_at;
    }
    bool throws() const { return !silent; }
};
template <typename S>
static void garbage(S* y, long n)
{
    for (long i = 0; i < n; i += 2) y[i] = S(std::numeric_limits<typename Eigen::NumTraits<S>::Real>::quiet_NaN());
}
// wraps every entry point through which a solver applies a user operator; only the ones the base has get instantiated
template <class Base>
struct Faulty : Base
{
    using Scalar = typename Base::Scalar;
    using Matrix = Eigen::Matrix<Scalar, -1, -1>;
    mutable FaultCtl ctl;
    template <class... A>
    explicit Faulty(A&&... a) : Base(std::forward<A>(a)...) {}
    void perform_op(const Scalar* x, Scalar* y) const
    {
        if (ctl.hit())
        {
            if (ctl.throws()) { garbage(y, this->rows()); throw FaultEx(ctl.id); }
            Base::perform_op(x, y);
            garbage(y, this->rows());
            return;
        }
        Base::perform_op(x, y);
    }
    void solve(const Scalar* x, Scalar* y) const
    {
        if (ctl.hit())
        {
            if (ctl.throws()) { garbage(y, this->rows()); throw FaultEx(ctl.id); }
            Base::solve(x, y);
            garbage(y, this->rows());
            return;
        }
        Base::solve(x, y);
    }
    void lower_triangular_solve(const Scalar* x, Scalar* y) const
    {
        if (ctl.hit())
        {
            if (ctl.throws()) { garbage(y, this->rows()); throw FaultEx(ctl.id); }
            Base::lower_triangular_solve(x, y);
            garbage(y, this->rows());
            return;
        }
        Base::lower_triangular_solve(x, y);
    }
    void upper_triangular_solve(const Scalar* x, Scalar* y) const
    {
        if (ctl.hit())
        {
            if (ctl.throws()) { garbage(y, this->rows()); throw FaultEx(ctl.id); }
            Base::upper_triangular_solve(x, y);
            garbage(y, this->rows());
            return;
        }
        Base::upper_triangular_solve(x, y);
    }
    Matrix operator*(const Eigen::Ref<const Matrix>& m) const
    {
        if (ctl.hit()) throw FaultEx(ctl.id);
        return Base::operator*(m);
    }
};

// ---------------------------------------------------------------- outcome of one init;compute
struct Out
{
    bool threw = false;
    bool fault = false;  // the exception was a FaultEx
    long fault_id = -1;
    std::string other;   // type/what of any other exception
    long ret = -1, nops = -1, niter = -1;
    int info = -1;
    uint64_t bits = 0;
    bool same(const Out& o) const { return threw == o.threw && ret == o.ret && nops == o.nops && niter == o.niter && info == o.info && bits == o.bits; }
};
template <typename T>
static void hash_raw(Fnv& f, const T& m)
{
    using S = typename T::Scalar;
    using R = typename Eigen::NumTraits<S>::Real;
    f.pod(uint64_t(m.rows()));
    f.pod(uint64_t(m.cols()));
    for (Eigen::Index j = 0; j < m.cols(); j++)
        for (Eigen::Index i = 0; i < m.rows(); i++)
        {
            if constexpr (Eigen::NumTraits<S>::IsComplex) { R a = m(i, j).real(), b = m(i, j).imag(); f.pod(a); f.pod(b); }
            else { R a = m(i, j); f.pod(a); }
        }
}

// A rig owns the operators and the solver of one subject; everything type specific is behind std::function
struct Rig
{
    std::shared_ptr<void> keep;
    std::vector<FaultCtl*> ctl;       // [0] = A operator, [1] = B operator (if any)
    std::function<void(Out&)> compute;  // init(v); compute(args)
    std::function<void(Out&)> observe;  // accessor sweep (operators disarmed: accessors are outside this property)
    void run(Out& o)
    {
        Track t;
        compute(o);
        std::vector<long> armed;
        for (auto* c : ctl) { c->calls_compute = c->calls; armed.push_back(c->throw_at); c->throw_at = -1; }
        observe(o);
        for (size_t i = 0; i < ctl.size(); i++) ctl[i]->throw_at = armed[i];
    }
};

template <class F>
static void guarded(Out& o, F&& f)
{
    try
    {
        f();
    }
    catch (const FaultEx& e) { o.threw = true; o.fault = true; o.fault_id = e.id; }
    catch (const std::exception& e) { o.threw = true; o.other = std::string("std::exception: ") + e.what(); }
    catch (...) { o.threw = true; o.other = "unknown exception type"; }
}
template <class Solver>
static void observe(Solver& s, Out& o)
{
    auto ev = s.eigenvalues();
    auto X = s.eigenvectors();
    Fnv f;
    hash_raw(f, ev);
    hash_raw(f, X);
    o.bits = f.h;
    o.info = int(s.info());
    o.nops = s.num_operations();
    o.niter = s.num_iterations();
}

// ---------------------------------------------------------------- subjects
struct Subj
{
    std::string name;
    MatL A;       // symmetric or general
    MatL B;       // SPD (generalized) or empty
    int nev, ncv;
    int start;    // 0: default init(), 1: init(e1-like eigen-direction start giving a breakdown)
    long maxit;
    double tol;
};
static MatL lapl(int n)
{
    MatL L = MatL::Zero(n, n);
    for (int i = 0; i < n; i++) { L(i, i) = 2; if (i + 1 < n) L(i, i + 1) = L(i + 1, i) = -1; }
    return L;
}
static std::vector<Subj> sym_subjects()
{
    std::vector<Subj> v;
    MatL B6 = MatL::Zero(6, 6), B8 = MatL::Zero(8, 8);
    for (int i = 0; i < 6; i++) { B6(i, i) = 4; if (i + 1 < 6) B6(i, i + 1) = B6(i + 1, i) = 1; }
    for (int i = 0; i < 8; i++) B8(i, i) = i + 1;
    v.push_back({"lap6_norestart", lapl(6), B6, 2, 6, 0, 20, 1e-10});
    v.push_back({"lap8_restarts", lapl(8), B8, 2, 4, 0, 20, 1e-10});
    MatL blk = MatL::Zero(7, 7);
    blk.topLeftCorner(3, 3) = lapl(3);
    blk.bottomRightCorner(4, 4) = lapl(4) * LD(1.5);
    MatL B7 = MatL::Identity(7, 7) * LD(2);
    v.push_back({"blk7_breakdown", blk, B7, 2, 5, 1, 20, 1e-10});
    v.push_back({"lap8_maxit2", lapl(8), B8, 3, 5, 0, 2, 1e-12});
    return v;
}
static std::vector<Subj> gen_subjects()
{
    std::vector<Subj> v;
    MatL A6 = MatL::Zero(6, 6);
    for (int i = 0; i < 6; i++) { A6(i, i) = i + 1; if (i + 1 < 6) { A6(i, i + 1) = 1; A6(i + 1, i) = LD(-0.5); } }
    v.push_back({"band6_norestart", A6, MatL(), 2, 6, 0, 20, 1e-10});
    MatL A8 = MatL::Zero(8, 8);
    for (int i = 0; i < 8; i++) { A8(i, i) = LD(0.5) * i; if (i + 1 < 8) { A8(i, i + 1) = 2; A8(i + 1, i) = -1; } if (i + 2 < 8) A8(i, i + 2) = LD(0.3); }
    v.push_back({"band8_restarts", A8, MatL(), 2, 5, 0, 20, 1e-10});
    MatL P = MatL::Zero(7, 7);
    for (int i = 0; i < 3; i++) P((i + 1) % 3, i) = 1;
    for (int i = 0; i < 4; i++) P(3 + (i + 1) % 4, 3 + i) = 2;
    v.push_back({"perm7_breakdown", P, MatL(), 2, 5, 1, 20, 1e-10});
    v.push_back({"band8_maxit2", A8, MatL(), 3, 6, 0, 2, 1e-12});
    return v;
}

template <typename S>
static Eigen::Matrix<S, -1, 1> start_vec(const Subj& s)
{
    const int n = s.A.rows();
    Eigen::Matrix<S, -1, 1> v = Eigen::Matrix<S, -1, 1>::Zero(n);
    v[0] = S(1);
    v[1] = S(0.5);  // lies in the leading block of the block-diagonal subjects: the Krylov space breaks down
    return v;
}

// ---- rig builders ---------------------------------------------------------------------------------------------
template <class Solver, class OpA, typename S, class... Extra>
static Rig rig_standard(const Subj& sj, SortRule rule, Extra... extra)
{
    struct Hold
    {
        Eigen::Matrix<S, -1, -1> M;
        std::unique_ptr<OpA> op;
        std::unique_ptr<Solver> s;
    };
    auto h = std::make_shared<Hold>();
    h->M = sj.A.template cast<S>();
    h->op = std::make_unique<OpA>(h->M);
    h->s = std::make_unique<Solver>(*h->op, sj.nev, sj.ncv, extra...);
    Rig r;
    r.keep = h;
    r.ctl = {&h->op->ctl};
    Subj sc = sj;
    r.compute = [h, sc, rule](Out& o) {
        guarded(o, [&]() {
            if (sc.start == 0) h->s->init();
            else { auto v = start_vec<S>(sc); h->s->init(v.data()); }
            o.ret = h->s->compute(rule, sc.maxit, typename Eigen::NumTraits<S>::Real(sc.tol));
        });
    };
    r.observe = [h](Out& o) {
        Out dummy;
        guarded(dummy, [&]() { observe(*h->s, o); });
        if (dummy.threw) o.other += " | accessor threw";
    };
    return r;
}
template <typename S>
static Eigen::Matrix<S, -1, -1> herm_of(const MatL& A)
{
    const int n = A.rows();
    Eigen::Matrix<S, -1, -1> M = A.template cast<S>();
    for (int i = 0; i < n; i++)
        for (int j = i + 1; j < n; j++)
            if (A(i, j) != 0) { M(i, j) = S(double(A(i, j)), 0.25); M(j, i) = std::conj(M(i, j)); }
    return M;
}
static Rig rig_herm(const Subj& sj, SortRule rule)
{
    using S = std::complex<double>;
    using OpA = Faulty<DenseHermMatProd<S>>;
    using Solver = HermEigsSolver<OpA>;
    struct Hold
    {
        Eigen::Matrix<S, -1, -1> M;
        std::unique_ptr<OpA> op;
        std::unique_ptr<Solver> s;
    };
    auto h = std::make_shared<Hold>();
    h->M = herm_of<S>(sj.A);
    h->op = std::make_unique<OpA>(h->M);
    h->s = std::make_unique<Solver>(*h->op, sj.nev, sj.ncv);
    Rig r;
    r.keep = h;
    r.ctl = {&h->op->ctl};
    Subj sc = sj;
    r.compute = [h, sc, rule](Out& o) {
        guarded(o, [&]() {
            if (sc.start == 0) h->s->init();
            else { auto v = start_vec<S>(sc); h->s->init(v.data()); }
            o.ret = h->s->compute(rule, sc.maxit, sc.tol);
        });
    };
    r.observe = [h](Out& o) {
        Out dummy;
        guarded(dummy, [&]() { observe(*h->s, o); });
    };
    return r;
}
// generalized, two user operators
template <class Solver, class OpA, class OpB, bool TwoMat, class MatA, class MatB, class... Extra>
static Rig rig_geigs(const Subj& sj, SortRule rule, MatA Am, MatB Bm, Extra... extra)
{
    struct Hold
    {
        MatA A;
        MatB B;
        std::unique_ptr<OpA> op;
        std::unique_ptr<OpB> bop;
        std::unique_ptr<Solver> s;
    };
    auto h = std::make_shared<Hold>();
    h->A = Am;
    h->B = Bm;
    if constexpr (TwoMat) h->op = std::make_unique<OpA>(h->A, h->B);
    else h->op = std::make_unique<OpA>(h->A);
    h->bop = std::make_unique<OpB>(h->B);
    h->s = std::make_unique<Solver>(*h->op, *h->bop, sj.nev, sj.ncv, extra...);
    Rig r;
    r.keep = h;
    r.ctl = {&h->op->ctl, &h->bop->ctl};
    Subj sc = sj;
    r.compute = [h, sc, rule](Out& o) {
        guarded(o, [&]() {
            if (sc.start == 0) h->s->init();
            else { auto v = start_vec<double>(sc); h->s->init(v.data()); }
            o.ret = h->s->compute(rule, sc.maxit, sc.tol);
        });
    };
    r.observe = [h](Out& o) {
        Out dummy;
        guarded(dummy, [&]() { observe(*h->s, o); });
    };
    return r;
}
static Rig rig_davidson(const Subj& sj, SortRule rule)
{
    using OpA = Faulty<DenseSymMatProd<double>>;
    using Solver = DavidsonSymEigsSolver<OpA>;
    struct Hold
    {
        Eigen::MatrixXd M;
        std::unique_ptr<OpA> op;
        std::unique_ptr<Solver> s;
    };
    auto h = std::make_shared<Hold>();
    h->M = sj.A.cast<double>();
    for (int i = 0; i < h->M.rows(); i++) h->M(i, i) += 3.0 * i;  // diagonally dominant, as the method assumes
    h->op = std::make_unique<OpA>(h->M);
    h->s = std::make_unique<Solver>(*h->op, sj.nev, 2, sj.ncv);
    Rig r;
    r.keep = h;
    r.ctl = {&h->op->ctl};
    r.compute = [h, rule](Out& o) { guarded(o, [&]() { o.ret = h->s->compute(rule, 100, 1e-8); }); };
    r.observe = [h](Out& o) {
        Out dummy;
        guarded(dummy, [&]() {
            auto ev = h->s->eigenvalues();
            auto X = h->s->eigenvectors();
            Fnv f;
            hash_raw(f, ev);
            hash_raw(f, X);
            o.bits = f.h;
            o.info = int(h->s->info());
            o.niter = h->s->num_iterations();
            o.nops = 0;
        });
    };
    return r;
}

// ---------------------------------------------------------------- the enumeration for one (class, subject)
static void enumerate(const std::string& key, const std::function<Rig()>& make_raw, bool pairs, long pair_width, const std::string& replay, Local& L)
{
    const long live0 = g_live;
    auto make = [&]() { Track t; return make_raw(); };
    auto destroy = [](Rig& r) { Track t; r.compute = nullptr; r.observe = nullptr; r.keep.reset(); };
    {
        // fault-free reference and operator counts
        Out ref;
        std::vector<long> N;
        {
            Rig r = make();
            r.run(ref);
            for (auto* c : r.ctl) N.push_back(c->calls_compute);
            // a second clean run on the same object must already agree (C06); otherwise the comparison below is moot
            Out again;
            for (auto* c : r.ctl) c->calls = 0;
            r.run(again);
            if (!again.same(ref)) L.count("reference_not_rerun_stable");
        }
        L.evaluations++;
        if (getenv("VF_C14_DEBUG")) fprintf(stderr, "%s : N_A=%ld N_B=%ld threw=%d ret=%ld info=%d\n", key.c_str(), N.size() > 0 ? N[0] : -1, N.size() > 1 ? N[1] : -1, int(ref.threw), ref.ret, ref.info);
        if (getenv("VF_C14_COUNT_ONLY")) return;
        if (ref.threw) { L.count("reference_run_threw"); }
        else
        {
            L.count("subjects");
            for (size_t which = 0; which < N.size(); which++)
            {
                L.count(which == 0 ? "A_operator_applications" : "B_operator_applications", N[which]);
                for (long k = 1; k <= N[which]; k++)
                {
                    const std::string fk = key + "|fault " + (which == 0 ? "A" : "B") + "@" + num(k);
                    Rig r = make();
                    L.traces++;
                    r.ctl[which]->throw_at = k;
                    r.ctl[which]->id = 1000 * (which + 1) + k;
                    Out o1;
                    r.run(o1);
                    L.evaluations++;
                    L.transitions++;
                    {
                        Fnv f; f.str(fk);
                        L.distinct.insert(f.h);
                        L.sample("{\"fault\": " + jstr(fk) + ", \"exception_propagated\": " + (o1.fault ? "true" : "false") + "}", 4);
                    }
                    if (!o1.threw) L.violate(fk + "|swallowed", replay, "the operator threw at application " + num(k) + " but init()/compute() returned normally");
                    else if (!o1.fault) L.violate(fk + "|translated", replay, "a different exception left the solver: " + o1.other);
                    else if (o1.fault_id != r.ctl[which]->id) L.violate(fk + "|wrong-exception", replay, "exception id " + num(o1.fault_id));
                    {
                        // the same index with a silent fault: NaN output, no exception from the operator; whatever the
                        // library does with it (its own exceptions included), the solver must be usable afterwards
                        Rig rs = make();
                        L.traces++;
                        rs.ctl[which]->throw_at = k;
                        rs.ctl[which]->silent = true;
                        Out os;
                        rs.run(os);
                        for (auto* c : rs.ctl) { c->calls = 0; c->throw_at = -1; c->silent = false; }
                        Out rec;
                        rs.run(rec);
                        L.transitions += 2;
                        L.evaluations++;
                        L.count(os.threw ? "silent_fault_library_threw" : "silent_fault_returned");
                        if (!rec.same(ref))
                            L.violate(fk + "(NaN, no throw)|recovery-differs", replay,
                                      "init;compute after a NaN-returning application: ret " + num(rec.ret) + "/" + num(ref.ret) + " nops " + num(rec.nops) + "/" + num(ref.nops) + " info " + num(rec.info) + "/" + num(ref.info) +
                                          (rec.threw ? " threw: " + rec.other : "") + (rec.bits != ref.bits ? " values/vectors differ in bits" : ""));
                    }
                    // retry attempts
                    const long k2max = pairs ? std::min<long>(N[which], pair_width) : 0;
                    for (long k2 = 0; k2 <= k2max; k2++)
                    {
                        // k2 = 0: plain recovery on the same object; k2 > 0: a second fault in the retry, then recovery.
                        // (each pair needs its own object: the first fault is replayed)
                        Rig rr = k2 == 0 ? std::move(r) : make();
                        if (k2 > 0)
                        {
                            L.traces++;
                            rr.ctl[which]->throw_at = k;
                            rr.ctl[which]->id = 7;
                            Out t;
                            rr.run(t);
                            for (auto* c : rr.ctl) { c->calls = 0; c->throw_at = -1; }
                            rr.ctl[which]->throw_at = k2;
                            rr.ctl[which]->id = 8;
                            Out t2;
                            rr.run(t2);
                            L.transitions += 2;
                            if (!t2.fault || t2.fault_id != 8) L.violate(fk + "+" + num(k2) + "|second-fault-not-propagated", replay, t2.other);
                        }
                        for (auto* c : rr.ctl) { c->calls = 0; c->throw_at = -1; }
                        Out rec;
                        rr.run(rec);
                        L.transitions++;
                        L.evaluations++;
                        if (!rec.same(ref))
                            L.violate(fk + (k2 ? "+" + num(k2) : "") + "|recovery-differs", replay,
                                      "init;compute after the fault: ret " + num(rec.ret) + "/" + num(ref.ret) + " nops " + num(rec.nops) + "/" + num(ref.nops) + " niter " + num(rec.niter) + "/" + num(ref.niter) + " info " + num(rec.info) + "/" + num(ref.info) +
                                          (rec.threw ? " threw: " + rec.other : "") + (rec.bits != ref.bits ? " values/vectors differ in bits" : ""));
                        if (k2 == 0 && !pairs) break;
                    }
                }
            }
        }
    }
    if (g_live != live0) L.violate(key + "|leak", replay, "live allocations " + num(g_live - live0) + " after all solvers and operators were destroyed");
}

int main(int argc, char** argv)
{
    Config cfg = parse_args(argc, argv, 240, 1500);
    Runner R("C14", cfg);
    const bool q = cfg.quick();
    const long PW = q ? 10 : 1000;  // retry faults k2 in 1..PW
    auto syms = sym_subjects();
    auto gens = gen_subjects();
    struct Job { std::string key; std::function<Rig()> make; };
    std::vector<Job> jobs;
    const SortRule SR[2] = {SortRule::LargestAlge, SortRule::SmallestMagn};
    const SortRule GR[2] = {SortRule::LargestMagn, SortRule::SmallestReal};
    for (auto& sj : syms)
        for (int r = 0; r < 2; r++)
        {
            const std::string sfx = "|" + sj.name + "|rule" + num(r);
            jobs.push_back({"SymEigsSolver" + sfx, [sj, r, SR]() { return rig_standard<SymEigsSolver<Faulty<DenseSymMatProd<double>>>, Faulty<DenseSymMatProd<double>>, double>(sj, SR[r]); }});
            jobs.push_back({"SymEigsShiftSolver" + sfx, [sj, r, SR]() { return rig_standard<SymEigsShiftSolver<Faulty<DenseSymShiftSolve<double>>>, Faulty<DenseSymShiftSolve<double>>, double>(sj, SR[r], 0.37); }});
            jobs.push_back({"HermEigsSolver" + sfx, [sj, r, SR]() { return rig_herm(sj, SR[r]); }});
            jobs.push_back({"SymGEigsSolver<Cholesky>" + sfx, [sj, r, SR]() {
                using OA = Faulty<DenseSymMatProd<double>>; using OB = Faulty<DenseCholesky<double>>;
                return rig_geigs<SymGEigsSolver<OA, OB, GEigsMode::Cholesky>, OA, OB, false>(sj, SR[r], Eigen::MatrixXd(sj.A.cast<double>()), Eigen::MatrixXd(sj.B.cast<double>())); }});
            jobs.push_back({"SymGEigsSolver<RegularInverse>" + sfx, [sj, r, SR]() {
                using OA = Faulty<SparseSymMatProd<double>>; using OB = Faulty<SparseRegularInverse<double>>;
                Eigen::SparseMatrix<double> As = Eigen::MatrixXd(sj.A.cast<double>()).sparseView(), Bs = Eigen::MatrixXd(sj.B.cast<double>()).sparseView();
                return rig_geigs<SymGEigsSolver<OA, OB, GEigsMode::RegularInverse>, OA, OB, false>(sj, SR[r], As, Bs); }});
            jobs.push_back({"SymGEigsShiftSolver<ShiftInvert>" + sfx, [sj, r, SR]() {
                using OA = Faulty<SymShiftInvert<double, Eigen::Dense, Eigen::Dense>>; using OB = Faulty<DenseSymMatProd<double>>;
                return rig_geigs<SymGEigsShiftSolver<OA, OB, GEigsMode::ShiftInvert>, OA, OB, true>(sj, SR[r], Eigen::MatrixXd(sj.A.cast<double>()), Eigen::MatrixXd(sj.B.cast<double>()), 0.37); }});
            jobs.push_back({"SymGEigsShiftSolver<Buckling>" + sfx, [sj, r, SR]() {
                // buckling: K (positive definite) x = lambda KG x; K = B-like SPD matrix, KG = A
                using OA = Faulty<SymShiftInvert<double, Eigen::Dense, Eigen::Dense>>; using OB = Faulty<DenseSymMatProd<double>>;
                return rig_geigs<SymGEigsShiftSolver<OA, OB, GEigsMode::Buckling>, OA, OB, true>(sj, SR[r], Eigen::MatrixXd(sj.B.cast<double>()), Eigen::MatrixXd(sj.A.cast<double>()), 1.3); }});
            jobs.push_back({"SymGEigsShiftSolver<Cayley>" + sfx, [sj, r, SR]() {
                using OA = Faulty<SymShiftInvert<double, Eigen::Dense, Eigen::Dense>>; using OB = Faulty<DenseSymMatProd<double>>;
                return rig_geigs<SymGEigsShiftSolver<OA, OB, GEigsMode::Cayley>, OA, OB, true>(sj, SR[r], Eigen::MatrixXd(sj.A.cast<double>()), Eigen::MatrixXd(sj.B.cast<double>()), 0.37); }});
            if (r == 0) jobs.push_back({"DavidsonSymEigsSolver" + sfx, [sj, r, SR]() { return rig_davidson(sj, SR[r]); }});
        }
    for (auto& sj : gens)
        for (int r = 0; r < 2; r++)
        {
            const std::string sfx = "|" + sj.name + "|rule" + num(r);
            jobs.push_back({"GenEigsSolver" + sfx, [sj, r, GR]() { return rig_standard<GenEigsSolver<Faulty<DenseGenMatProd<double>>>, Faulty<DenseGenMatProd<double>>, double>(sj, GR[r]); }});
            jobs.push_back({"GenEigsRealShiftSolver" + sfx, [sj, r, GR]() { return rig_standard<GenEigsRealShiftSolver<Faulty<DenseGenRealShiftSolve<double>>>, Faulty<DenseGenRealShiftSolve<double>>, double>(sj, GR[r], 0.37); }});
            jobs.push_back({"GenEigsComplexShiftSolver" + sfx, [sj, r, GR]() { return rig_standard<GenEigsComplexShiftSolver<Faulty<DenseGenComplexShiftSolve<double>>>, Faulty<DenseGenComplexShiftSolve<double>>, double>(sj, GR[r], 0.37, 0.6); }});
        }
    R.run("faults", jobs.size(), [&](uint64_t idx, Local& L) { enumerate(jobs[idx].key, jobs[idx].make, true, PW, "faults#" + num(idx), L); });
    return R.finish("E3: for every (solver class, subject, rule): every fault index k in 1..N of the A-operator and of the B-operator (N from the fault-free run), each followed by recovery on the same object; pairs (k, k2<=" + num(PW) + ") with a second fault in the retry; distinct = distinct (class, subject, operator, k)",
                    {"a fault = the operator fills part of its output with NaN and throws a unique exception derived from std::runtime_error",
                     "recovery is compared bit for bit with a fault-free run of the same build in the same process",
                     "PartialSVDSolver takes a matrix, not a user operator, and is outside this property"});
}

// E1 harness for the general (nonsymmetric) Arnoldi solvers: GenEigsSolver (dense, sparse), GenEigsRealShiftSolver
// (dense, sparse), GenEigsComplexShiftSolver (dense, sparse).  Serves C02, C05, C06 (plain) and C13 (asan) via --prop.
//
// Sections (index = one matrix; per matrix: every legal (nev,ncv) x kinds x shifts x history search + depth-2 sweep):
//   gint3    all 19683 real 3x3 matrices over {-1,0,1}
//   gint4    all 65536 real 4x4 matrices over {0,1}
//   perm     every permutation matrix, 3 <= n <= 6 (870) and every signed cyclic shift
//   skew4    all 729 skew-symmetric 4x4 matrices over {-1,0,1}
//   comp     companion matrices of every monic polynomial with coefficients in {-1,0,1}, degree 4 (81), 5 (243)
//   tri4     all 3^10 upper triangular 4x4 matrices over {-1,0,1}                          (thorough)
//   struct   Jordan blocks J_k(lambda)+diag, plane rotations and products, rank-1, prescribed spectra S D S^-1 (n = 5,6)
#ifndef VF_SCALAR
#define VF_SCALAR double
#endif
#include "engine/e1.h"
#include "engine/alphabet.h"
#include <Spectra/GenEigsSolver.h>
#include <Spectra/GenEigsRealShiftSolver.h>
#include <Spectra/GenEigsComplexShiftSolver.h>
#include <Spectra/MatOp/DenseGenMatProd.h>
#include <Spectra/MatOp/SparseGenMatProd.h>
#include <Spectra/MatOp/DenseGenRealShiftSolve.h>
#include <Spectra/MatOp/SparseGenRealShiftSolve.h>
#include <Spectra/MatOp/DenseGenComplexShiftSolve.h>
#include <Spectra/MatOp/SparseGenComplexShiftSolve.h>
#include <algorithm>

using namespace vf;
using S0 = VF_SCALAR;
#define VF_STR2(x) #x
#define VF_STR(x) VF_STR2(x)
static const char* SCALAR_NAME = VF_STR(VF_SCALAR);
// the float / long double instantiations (thorough tier only) run a narrower, always-completed set of families
static const bool NARROW = !std::is_same<S0, double>::value;

template <typename Scalar, class OP>
static uint64_t probe_op(const OP& op, long n)
{
    Eigen::Matrix<Scalar, -1, 1> x(n), y(n);
    for (long i = 0; i < n; i++) x[i] = Scalar(1) / Scalar(i + 2);
    op.raw_apply(x.data(), y.data());
    Fnv h;
    hash_raw(h, y);
    return h.h;
}
template <typename Scalar>
static Eigen::SparseMatrix<Scalar> mk_sparse(const Subject& S)
{
    Eigen::SparseMatrix<Scalar> m = cast_mat<Scalar>(S.A).sparseView();
    m.makeCompressed();
    return m;
}

#define GEN_KIND(NAME, OPCLS, SOLVER, MATTYPE, MATINIT, MAKEARGS, SWEEP, LABEL)                                  \
    template <typename Scalar>                                                                                    \
    struct NAME                                                                                                   \
    {                                                                                                             \
        static constexpr bool sweep = SWEEP;                                                                      \
        using Op = Counted<Spectra::OPCLS<Scalar>>;                                                               \
        using Solver = Spectra::SOLVER<Op>;                                                                       \
        MATTYPE M;                                                                                                \
        Op op;                                                                                                    \
        explicit NAME(const Subject& S) : M(MATINIT), op(M) {}                                                    \
        std::unique_ptr<Solver> make(const Subject& S) { return std::make_unique<Solver> MAKEARGS; }              \
        uint64_t probe() const { return probe_op<Scalar>(op, M.rows()); }                                         \
        static std::string name() { return std::string(LABEL "<") + SCALAR_NAME + ">>"; }                         \
    };
#define DENSE_T Eigen::Matrix<Scalar, -1, -1>
#define SPARSE_T Eigen::SparseMatrix<Scalar>
GEN_KIND(KGenDense, DenseGenMatProd, GenEigsSolver, DENSE_T, cast_mat<Scalar>(S.A), (op, S.nev, S.ncv), true, "GenEigsSolver<DenseGenMatProd")
GEN_KIND(KGenSparse, SparseGenMatProd, GenEigsSolver, SPARSE_T, mk_sparse<Scalar>(S), (op, S.nev, S.ncv), false, "GenEigsSolver<SparseGenMatProd")
GEN_KIND(KRealDense, DenseGenRealShiftSolve, GenEigsRealShiftSolver, DENSE_T, cast_mat<Scalar>(S.A), (op, S.nev, S.ncv, Scalar(S.sigma.real())), true, "GenEigsRealShiftSolver<DenseGenRealShiftSolve")
GEN_KIND(KRealSparse, SparseGenRealShiftSolve, GenEigsRealShiftSolver, SPARSE_T, mk_sparse<Scalar>(S), (op, S.nev, S.ncv, Scalar(S.sigma.real())), false, "GenEigsRealShiftSolver<SparseGenRealShiftSolve")
GEN_KIND(KCplxDense, DenseGenComplexShiftSolve, GenEigsComplexShiftSolver, DENSE_T, cast_mat<Scalar>(S.A), (op, S.nev, S.ncv, Scalar(S.sigma.real()), Scalar(S.sigma.imag())), true, "GenEigsComplexShiftSolver<DenseGenComplexShiftSolve")
GEN_KIND(KCplxSparse, SparseGenComplexShiftSolve, GenEigsComplexShiftSolver, SPARSE_T, mk_sparse<Scalar>(S), (op, S.nev, S.ncv, Scalar(S.sigma.real()), Scalar(S.sigma.imag())), false, "GenEigsComplexShiftSolver<SparseGenComplexShiftSolve")

struct Plan
{
    std::string prop;
    int depth = 3;
    bool sweep = true, thorough = false;
    bool light = false;  // large complete families in the thorough tier: depth 3 and the quick-tier sweep parameters
};
static Plan PLAN;

// under AddressSanitizer (about 20x slower) the large exhaustive families are sampled; the plain flavour of the same
// harness (Eigen index assertions on, operator-argument validation, work bound, finiteness) covers every index
static bool asan_skip(uint64_t idx)
{
#ifdef VF_ASAN
    return idx % (PLAN.thorough ? 8 : 32) != 0;
#else
    (void) idx;
    return false;
#endif
}
static const SortRule GEN_RULES[6] = {SortRule::LargestMagn, SortRule::LargestReal, SortRule::LargestImag, SortRule::SmallestMagn, SortRule::SmallestReal, SortRule::SmallestImag};

static void prepare_matrix(Subject& S, const MatL& A, const std::string& desc)
{
    S.A = A.cast<CL>();
    S.n = A.rows();
    S.hermitian = false;
    const int n = S.n;
    Eigen::EigenSolver<MatL> es(A);
    S.ref = es.eigenvalues();
    S.normA = fro(A);
    S.starts.clear();
    VecCL v(n);
    v.setZero(); v[0] = 1; S.starts.push_back(v);                                // 0: e1
    for (int i = 0; i < n; i++) v[i] = i + 1; S.starts.push_back(v);             // 1: ramp (generic)
    // 2: a two-dimensional invariant subspace (Re and Im of a complex eigenvector, or two real eigenvectors)
    // 3: a real eigenvector if there is one, otherwise the real part of a complex one (still a 2-dim invariant subspace)
    const MatCL X = es.eigenvectors();
    int ireal = -1, icplx = -1, ireal2 = -1;
    for (int i = 0; i < n; i++)
    {
        if (std::abs(S.ref[i].imag()) <= 1e-12L * std::max<LD>(1, S.normA)) { if (ireal < 0) ireal = i; else if (ireal2 < 0) ireal2 = i; }
        else if (icplx < 0) icplx = i;
    }
    auto realpart = [&](int i) { VecCL r(n); for (int k = 0; k < n; k++) r[k] = X(k, i).real(); return r; };
    auto imagpart = [&](int i) { VecCL r(n); for (int k = 0; k < n; k++) r[k] = X(k, i).imag(); return r; };
    VecCL two = icplx >= 0 ? VecCL(realpart(icplx) + CL(0.5L) * imagpart(icplx)) : (ireal2 >= 0 ? VecCL(realpart(ireal) + realpart(ireal2)) : realpart(0));
    VecCL one = ireal >= 0 ? realpart(ireal) : realpart(icplx);
    if (!(two.norm() > 1e-6L)) two = S.starts[1];
    if (!(one.norm() > 1e-6L)) one = S.starts[0];
    S.starts.push_back(two);
    S.starts.push_back(one);
    v.setOnes(); v *= CL(1e15L); S.starts.push_back(v);                          // 4: ones, un-normalized (norm ~1e15)
    for (int i = 0; i < n; i++) v[i] = CL(LD(i % 2 ? -1 : 1) * 1e-15L); S.starts.push_back(v);  // 5: alternating, tiny norm
    for (int i = 1; i < n; i++) { v.setZero(); v[i] = 1; S.starts.push_back(v); }
    S.key = desc;
}

static bool set_real_shift(Subject& S, LD sigma)
{
    S.shift_mode = 1;
    S.sigma = sigma;
    MatL B = S.A.real() - sigma * MatL::Identity(S.n, S.n);
    Eigen::FullPivLU<MatL> lu(B);
    LD md = std::numeric_limits<LD>::infinity();
    for (int i = 0; i < S.n; i++) md = std::min(md, std::abs(S.ref[i] - CL(sigma)));
    if (!lu.isInvertible() || md < 1e-4L * std::max<LD>(S.normA, 1e-300L)) return false;
    S.norm_shifted = fro(B);
    S.inv_norm_shifted = fro(lu.inverse());
    S.cond_shifted = S.norm_shifted * S.inv_norm_shifted;
    return S.cond_shifted < 1e8L;
}
static bool set_cplx_shift(Subject& S, CL sigma)
{
    S.shift_mode = 2;
    S.sigma = sigma;
    MatCL B = S.A - sigma * MatCL::Identity(S.n, S.n);
    Eigen::FullPivLU<MatCL> lu(B);
    LD md = std::numeric_limits<LD>::infinity();
    for (int i = 0; i < S.n; i++) md = std::min(md, std::min(std::abs(S.ref[i] - sigma), std::abs(S.ref[i] - std::conj(sigma))));
    if (!lu.isInvertible() || md < 1e-4L * std::max<LD>(S.normA, 1e-300L)) return false;
    S.norm_shifted = fro(B);
    S.inv_norm_shifted = fro(lu.inverse());
    S.cond_shifted = S.norm_shifted * S.inv_norm_shifted;
    MatCL M = B * (S.A - std::conj(sigma) * MatCL::Identity(S.n, S.n));
    S.normM = fro(M);
    return S.cond_shifted < 1e8L;
}

template <class K>
static void explore_subject(Subject S, int rot, Local& L, const std::string& replay)
{
    using Scalar = typename K::Op::Scalar;
    S.eps = LD(std::numeric_limits<Scalar>::epsilon());
    S.key = K::name() + "|" + S.key + "|nev=" + num(S.nev) + ",ncv=" + num(S.ncv) +
        (S.shift_mode == 1 ? ",sigma=" + gnum(S.sigma.real()) : (S.shift_mode == 2 ? ",sigma=" + gnum(S.sigma.real()) + "+" + gnum(S.sigma.imag()) + "i" : ""));
    L.count("subjects");
    const SortRule r0 = GEN_RULES[rot % 6], r1 = GEN_RULES[(rot + 2) % 6];
    std::vector<OpDesc> ops;
    ops.push_back(op_init0());
    ops.push_back(op_initv(1));
    ops.push_back(op_initv(2));
    ops.push_back(op_compute(r0, PLAN.thorough ? 1000 : 300, std::max<LD>(1e-10L, 50 * S.eps), GEN_RULES[rot % 6]));
    ops.push_back(op_compute(r1, 1, std::max<LD>(1e-6L, 1000 * S.eps), GEN_RULES[(rot + 1) % 6]));
    ops.push_back(op_compute(r0, 0, std::max<LD>(1e-10L, 50 * S.eps), GEN_RULES[(rot + 3) % 6]));
    if (PLAN.prop == "C06") ops.push_back(op_share(1, r0, PLAN.thorough ? 1000 : 300, std::max<LD>(1e-10L, 50 * S.eps), GEN_RULES[rot % 6]));
    // an earlier compute() that throws at its very end (sorting rule the solver does not support)
    if (PLAN.prop == "C06") ops.push_back(op_compute(r0, 5, 1e-10L, SortRule::LargestAlge));
    try
    {
        PropOracle<K> po(PLAN.prop, S, ops, L, replay);
        Explorer<K> ex{S, ops, PLAN.prop == "C06" ? PLAN.depth - 1 : PLAN.depth, L};
        ex.tail_pairs = (PLAN.prop == "C06");
        ex.oracle = [&](const std::vector<int>& h, const Obs& b, const Obs& a, Inst<K>& inst) { po(h, b, a, inst); };
        ex.nondet = [&](const std::string& c, const std::string& d) { L.violate(S.key + "|" + c, replay, d); };
        ex.run();
        if (PLAN.sweep && K::sweep && PLAN.prop != "C06")  // (for C06 the sweep would compare a fresh object with itself)
        {
            static const long MAXIT_T[6] = {0, 1, 2, 3, 10, 1000};
            static const long MAXIT_Q[4] = {0, 1, 3, 300};
            const LD TOL_T[5] = {4 * S.eps, 1e-14L, 1e-10L, 1e-6L, 1e-2L};
            const LD TOL_Q[3] = {4 * S.eps, 1e-10L, 1e-2L};
            const bool full = PLAN.thorough && !PLAN.light;
            const int nm = full ? 6 : 4, nt = full ? 5 : 3;
            std::vector<OpDesc> sops;
            const size_t nstart = full ? S.starts.size() : std::min<size_t>(S.starts.size(), 6);
            for (size_t j = 0; j < nstart; j++) sops.push_back(op_initv(int(j)));
            const int ninit = int(sops.size());
            sops.push_back(op_init0());
            int c = 0;
            for (int r = 0; r < 6; r++)
                for (int m = 0; m < nm; m++)
                    for (int t = 0; t < nt; t++) sops.push_back(op_compute(GEN_RULES[r], full ? MAXIT_T[m] : MAXIT_Q[m], full ? TOL_T[t] : TOL_Q[t], GEN_RULES[(c++) % 6]));
            PropOracle<K> so(PLAN.prop, S, sops, L, replay);
            for (int vi = 0; vi <= ninit; vi++)
                for (int ci = ninit + 1; ci < int(sops.size()); ci++)
                {
                    if (sops[ci].tol < 4 * S.eps) continue;  // tolerances below ~eps are only asked of a scalar type that can deliver them
                    Inst<K> inst(S);
                    L.traces++;
                    Obs o0 = inst.observe();
                    Obs a = inst.apply(sops[vi]);
                    L.transitions++;
                    if (a.threw) { L.count("sweep_init_threw_" + a.extype); if (PLAN.prop == "C13") so({vi}, o0, a, inst); break; }
                    Obs b = inst.apply(sops[ci]);
                    L.transitions++;
                    so({vi, ci}, a, b, inst);
                }
        }
    }
    catch (const std::invalid_argument& e)
    {
        L.count("subject_rejected_by_operator");
    }
}

enum { K_DENSE = 1, K_SPARSE = 2, K_REAL = 4, K_REAL_SPARSE = 8, K_CPLX = 16, K_CPLX_SPARSE = 32 };

static void run_matrix(const MatL& A, const std::string& desc, uint64_t idx, int kinds, Local& L, const std::string& replay)
{
    Subject base;
    prepare_matrix(base, A, desc);
    const int n = base.n;
    const LD sc = base.normA > 0 ? base.normA : LD(1);
    int c = 0;
    for (auto cfg : cfg_gen(n))
    {
        const int rot = int((idx + c++) % 30);
        base.nev = cfg.first;
        base.ncv = cfg.second;
        if (kinds & K_DENSE) explore_subject<KGenDense<S0>>(base, rot, L, replay);
        if (kinds & K_SPARSE) explore_subject<KGenSparse<S0>>(base, rot + 1, L, replay);
        if (kinds & (K_REAL | K_REAL_SPARSE))
        {
            // real shifts: just outside the real parts of the spectrum, and an interior one
            LD lo = base.ref[0].real(), hi = lo;
            for (int i = 0; i < n; i++) { lo = std::min(lo, base.ref[i].real()); hi = std::max(hi, base.ref[i].real()); }
            std::vector<LD> cand = {lo - 0.37L * sc, (lo + hi) / 2 + 0.0123L * sc};
            if (PLAN.thorough) { cand.push_back(hi + 0.1L * sc); cand.push_back(0.3L * sc); }
            for (LD sg : cand)
            {
                Subject s2 = base;
                if (!set_real_shift(s2, sg)) { L.count("shift_skipped_premise"); continue; }
                if (kinds & K_REAL) explore_subject<KRealDense<S0>>(s2, rot + 2, L, replay);
                if (kinds & K_REAL_SPARSE) explore_subject<KRealSparse<S0>>(s2, rot + 3, L, replay);
            }
        }
        if (kinds & (K_CPLX | K_CPLX_SPARSE))
        {
            // complex shifts a + bi: a near a real part of the spectrum, b small / comparable to the spread, and the
            // degenerate-root configuration b = |lambda - a| for a real eigenvalue lambda
            std::vector<CL> cand;
            const LD a0 = base.ref[0].real() + 0.1L * sc;
            cand.push_back(CL(a0, 0.1L * sc));
            cand.push_back(CL(base.ref[n - 1].real() - 0.21L * sc, sc));
            for (int i = 0; i < n; i++)
                if (std::abs(base.ref[i].imag()) <= 1e-12L * sc)
                {
                    const LD a = base.ref[i].real() + 0.35L * sc;
                    cand.push_back(CL(a, std::abs(base.ref[i].real() - a)));
                    break;
                }
            if (PLAN.thorough) cand.push_back(CL(a0 - 0.3L * sc, 0.45L * sc));
            for (CL sg : cand)
            {
                Subject s2 = base;
                if (!set_cplx_shift(s2, sg)) { L.count("shift_skipped_premise"); continue; }
                if (kinds & K_CPLX) explore_subject<KCplxDense<S0>>(s2, rot + 4, L, replay);
                if (kinds & K_CPLX_SPARSE) explore_subject<KCplxSparse<S0>>(s2, rot + 5, L, replay);
            }
        }
    }
}

// ---- structured general families
static std::vector<std::pair<std::string, MatL>> struct_family(int n)
{
    std::vector<std::pair<std::string, MatL>> out;
    // Jordan blocks J_k(lambda) (+) diag(1..)
    for (int k = 2; k <= n; k++)
        for (LD lam : {LD(0), LD(1), LD(-2)})
        {
            MatL A = MatL::Zero(n, n);
            for (int i = 0; i < n; i++) A(i, i) = i < k ? lam : LD(i + 2);
            for (int i = 0; i + 1 < k; i++) A(i, i + 1) = 1;
            out.push_back({"jordan" + num(k) + "_" + gnum(lam), A});
        }
    // plane rotations embedded in I, and products of two
    const LD PI = std::acos(LD(-1));
    const LD ang[5] = {PI / 6, PI / 4, PI / 3, PI / 2, 2 * PI / 3};
    auto rot = [&](int p, int q, LD t) {
        MatL R = MatL::Identity(n, n);
        R(p, p) = std::cos(t); R(q, q) = std::cos(t); R(p, q) = -std::sin(t); R(q, p) = std::sin(t);
        return R;
    };
    for (int a = 0; a < 5; a++)
    {
        out.push_back({"rot" + num(a), rot(0, 1, ang[a])});
        out.push_back({"rot2_" + num(a), MatL(rot(0, 1, ang[a]) * rot(1, n - 1, ang[(a + 2) % 5]))});
        out.push_back({"rot3_" + num(a), MatL(rot(0, 2, ang[a]) * rot(1, 3, ang[(a + 1) % 5]) * LD(1.5))});
    }
    // rank-1
    {
        VecL u(n), v(n);
        for (int i = 0; i < n; i++) { u[i] = i + 1; v[i] = (i % 2 ? -1 : 2); }
        out.push_back({"rank1", MatL(u * v.transpose())});
        out.push_back({"rank1sym", MatL(u * u.transpose())});
    }
    // prescribed spectra S D S^{-1}: D block diagonal with real values and 2x2 rotation-scalings
    for (int npair = 0; npair <= 2; npair++)
        for (int st = 0; st < 3; st++)
        {
            MatL D = MatL::Zero(n, n);
            int i = 0;
            for (int p = 0; p < npair; p++, i += 2)
            {
                const LD re = LD(0.5) + p, im = LD(1.5) - LD(0.4) * p;
                D(i, i) = re; D(i + 1, i + 1) = re; D(i, i + 1) = im; D(i + 1, i) = -im;
            }
            for (; i < n; i++) D(i, i) = LD(i) - LD(1.25);
            MatL Sm = MatL::Identity(n, n);
            if (st == 1) for (int k = 0; k + 1 < n; k++) Sm(k + 1, k) = 1;
            if (st == 2) { VecL u(n); for (int k = 0; k < n; k++) u[k] = k + 1; Sm = householder(u); }
            MatL A = Sm * D * Sm.inverse();
            out.push_back({"spec_p" + num(npair) + "_s" + num(st), A});
        }
    return out;
}

int main(int argc, char** argv)
{
    Config cfg = parse_args(argc, argv, 200, 1500);
    for (int i = 1; i < argc; i++)
        if (std::string(argv[i]) == "--prop" && i + 1 < argc) PLAN.prop = argv[i + 1];
    if (PLAN.prop.empty()) PLAN.prop = "C02";
    PLAN.thorough = cfg.thorough();
    PLAN.depth = cfg.thorough() ? 4 : 3;
#ifdef VF_ASAN
    PLAN.depth = cfg.thorough() ? 3 : 2;
#endif
#ifdef VF_ASAN
    if (cfg.quick()) PLAN.sweep = false;  // quick asan: the history search only (the plain flavour runs the sweep)
#endif
    if (const char* d = getenv("VERIF_DEPTH")) PLAN.depth = atoi(d);
    Runner R(PLAN.prop, cfg);
    const bool q = cfg.quick();
    const int ALLK = K_DENSE | K_SPARSE | K_REAL | K_REAL_SPARSE | K_CPLX | K_CPLX_SPARSE;

    R.run("gint3", gint_count(3, 3), [&](uint64_t idx, Local& L) {
        if (asan_skip(idx)) { L.count("skipped_asan_sampling"); return; }
        int kinds = K_DENSE;
        if (idx % (q ? 27 : 2) == 0) kinds |= K_REAL | K_CPLX;
        if (idx % (q ? 243 : 61) == 0) kinds = ALLK;
        run_matrix(gint_get(3, D3(), idx), "gint3:" + num(idx), idx, kinds, L, "gint3#" + num(idx));
    });
    for (int n : {5, 6})
    {
        auto fam = struct_family(n);
        R.run("struct" + num(n), fam.size(), [&, n](uint64_t k, Local& L) {
            run_matrix(fam[k].second, "struct" + num(n) + ":" + fam[k].first, k, q && n == 6 ? (K_DENSE | K_REAL | K_CPLX) : ALLK, L, "struct" + num(n) + "#" + num(k));
        });
    }
    {
        // all permutation matrices 3 <= n <= 6, enumerated by lexicographic permutations
        std::vector<std::vector<int>> perms;
        for (int n = 3; n <= ((q || NARROW) ? 5 : 6); n++)
        {
            std::vector<int> p(n);
            for (int i = 0; i < n; i++) p[i] = i;
            do perms.push_back(p); while (std::next_permutation(p.begin(), p.end()));
        }
        R.run("perm", perms.size(), [&](uint64_t idx, Local& L) {
        if (asan_skip(idx)) { L.count("skipped_asan_sampling"); return; }
            const auto& p = perms[idx];
            const int n = p.size();
            MatL A = MatL::Zero(n, n);
            std::string d = "perm" + num(n) + ":";
            for (int i = 0; i < n; i++) { A(p[i], i) = 1; d += num(p[i]); }
            run_matrix(A, d, idx, K_DENSE | (idx % 4 == 0 ? K_REAL | K_CPLX : 0), L, "perm#" + num(idx));
            // signed cyclic shifts: the cyclic permutation with every sign pattern on its entries
            bool cyc = true;
            for (int i = 0; i < n; i++) cyc = cyc && p[i] == (i + 1) % n;
            if (cyc)
                for (int sgn = 1; sgn < (1 << n); sgn++)
                {
                    MatL B = A;
                    for (int i = 0; i < n; i++) if (sgn >> i & 1) B.col(i) *= -1;
                    run_matrix(B, "scyc" + num(n) + ":" + num(sgn), sgn, K_DENSE, L, "perm#" + num(idx));
                }
        });
    }
    R.run("skew4", ipow(3, 6), [&](uint64_t idx, Local& L) {
        if (asan_skip(idx)) { L.count("skipped_asan_sampling"); return; }
        if (q && idx % 3 != 0) { L.count("skipped_quick"); return; }
        MatL A = MatL::Zero(4, 4);
        uint64_t t = idx;
        for (int j = 0; j < 4; j++)
            for (int i = 0; i < j; i++) { A(i, j) = LD(int(t % 3) - 1); A(j, i) = -A(i, j); t /= 3; }
        run_matrix(A, "skew4:" + num(idx), idx, K_DENSE | (idx % 9 == 0 ? K_REAL | K_CPLX : 0), L, "skew4#" + num(idx));
    });
    for (int deg : {4, 5})
    {
        if (q && deg == 5) continue;
        R.run("comp" + num(deg), ipow(3, deg), [&, deg](uint64_t idx, Local& L) {
        if (asan_skip(idx)) { L.count("skipped_asan_sampling"); return; }
            MatL A = MatL::Zero(deg, deg);
            uint64_t t = idx;
            for (int i = 0; i + 1 < deg; i++) A(i + 1, i) = 1;
            for (int i = 0; i < deg; i++) { A(i, deg - 1) = -LD(int(t % 3) - 1); t /= 3; }
            run_matrix(A, "comp" + num(deg) + ":" + num(idx), idx, K_DENSE | (idx % 3 == 0 ? K_REAL | K_CPLX : 0), L, "comp" + num(deg) + "#" + num(idx));
        });
    }
    const int depth_saved = PLAN.depth;
    if (!q) { PLAN.light = true; PLAN.depth = std::min(PLAN.depth, 3); }
    R.run("gint4", gint_count(4, 2), [&](uint64_t idx, Local& L) {
        if (asan_skip(idx)) { L.count("skipped_asan_sampling"); return; }
        if ((q || NARROW) && idx % 256 != 5) { L.count("skipped_quick"); return; }
        run_matrix(gint_get(4, D01(), idx), "gint4:" + num(idx), idx, K_DENSE | (idx % (q ? 512 : 32) == 5 ? K_REAL | K_CPLX : 0), L, "gint4#" + num(idx));
    });
    if (!q && !NARROW)
        R.run("tri4", ipow(3, 10), [&](uint64_t idx, Local& L) {
        if (asan_skip(idx)) { L.count("skipped_asan_sampling"); return; }
            MatL A = MatL::Zero(4, 4);
            uint64_t t = idx;
            for (int j = 0; j < 4; j++)
                for (int i = 0; i <= j; i++) { A(i, j) = LD(int(t % 3) - 1); t /= 3; }
            run_matrix(A, "tri4:" + num(idx), idx, K_DENSE, L, "tri4#" + num(idx));
        });
    PLAN.light = false;
    PLAN.depth = depth_saved;
    std::string rule = "E1 history search depth " + num(PLAN.depth) + " (depth 3 for the complete 4x4 families) over {init(), init(v1), init(v2), compute x3" + (PLAN.prop == "C06" ? ", second-solver" : "") +
        "} + depth-2 sweep init(v);compute(rule,maxit,tol) over VEC(A) x 6 rules x maxit x tol, per (matrix, kind, every legal nev/ncv[, shift]); scalar " + SCALAR_NAME +
        "; non-trivial = compute returned >=1 pair (distinct = distinct (subject, returned bits))";
    return R.finish(rule, {"reference spectra/eigenvectors from Eigen::EigenSolver in long double (used for start vectors and shift placement only)",
                           "rounding allowance 1e3*eps*||A||_F; shift-and-invert bounds use ||A-sigma I||_F and ||(A-sigma I)^-1||_F computed in long double",
                           "complex shift: bound carries the resolvent norm at the second root of the back-transformation; degenerate-root cases are checked for finiteness, unit norm and root choice only"});
}

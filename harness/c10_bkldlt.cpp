// C10 - Bunch-Kaufman LDLT solves every nonsingular symmetric/Hermitian shifted system.
// Exhaustive over all symmetric matrices over {-1,0,1,2} for n = 1..4 ({0,1} for n = 5), all Hermitian 2x2/3x3
// over a Gaussian-integer alphabet, x shifts {0,+-1,1/2} + every diagonal entry x {Lower,Upper} x {Col,RowMajor}
// (the other strict triangle is poisoned with NaN) x right-hand sides e_i, ones; structured families for EVERY
// n in 1..80; the exactly-singular sub-family where NumericalIssue is required; the dense wrappers built on it.
#include "engine/common.h"
#include "engine/oracle.h"
#include <Spectra/LinAlg/BKLDLT.h>
#include <Spectra/MatOp/DenseSymShiftSolve.h>
#include <Spectra/MatOp/SymShiftInvert.h>

using namespace vf;
using Spectra::CompInfo;

static const LD CC = 50;

template <typename S> struct SN;
template <> struct SN<double> { static const char* n() { return "double"; } };
template <> struct SN<float> { static const char* n() { return "float"; } };
template <> struct SN<long double> { static const char* n() { return "longdouble"; } };
template <> struct SN<std::complex<double>> { static const char* n() { return "cdouble"; } };
template <> struct SN<std::complex<float>> { static const char* n() { return "cfloat"; } };

template <typename S> static S poison() { return S(std::numeric_limits<typename Eigen::NumTraits<S>::Real>::quiet_NaN()); }
template <> std::complex<double> poison<std::complex<double>>() { return {std::nan(""), std::nan("")}; }
template <> std::complex<float> poison<std::complex<float>>() { return {std::nanf(""), std::nanf("")}; }

static const char* info_name(CompInfo i)
{
    switch (i)
    {
        case CompInfo::Successful: return "Successful";
        case CompInfo::NotComputed: return "NotComputed";
        case CompInfo::NotConverging: return "NotConverging";
        case CompInfo::NumericalIssue: return "NumericalIssue";
    }
    return "?";
}

enum Expect { NONSINGULAR, SINGULAR_UNKNOWN, MUST_REPORT };

struct Case
{
    MatCL A;       // full Hermitian matrix (exact values)
    LD shift;
    Expect expect;
    LD cond;       // condition estimate of A - shift*I (nonsingular cases)
    std::string desc, replay;
};

// one (scalar, order, uplo) configuration of one case; returns the solutions for the L/U agreement test
template <typename S, int Order>
static bool run_cfg(const Case& c, int uplo, Local& L, std::vector<Eigen::Matrix<S, -1, 1>>& sols, bool all_rhs)
{
    using R = typename Eigen::NumTraits<S>::Real;
    using Mat = Eigen::Matrix<S, -1, -1, Order>;
    using Vec = Eigen::Matrix<S, -1, 1>;
    const int n = c.A.rows();
    const LD u = Unit<S>::u();
    std::string key = std::string("BKLDLT:") + SN<S>::n() + ":" + (uplo == Eigen::Lower ? "Lower" : "Upper") + ":" + (Order == Eigen::RowMajor ? "RowMajor" : "ColMajor") + ":" + c.desc;
    Mat M(n, n);
    for (int i = 0; i < n; i++)
        for (int j = 0; j < n; j++)
        {
            bool used = (uplo == Eigen::Lower) ? (i >= j) : (i <= j);
            std::complex<LD> v = c.A(i, j);
            if (used) { if constexpr (Eigen::NumTraits<S>::IsComplex) M(i, j) = S(R(v.real()), R(v.imag())); else M(i, j) = S(v.real()); }
            else M(i, j) = poison<S>();
        }
    L.evaluations++;
    Spectra::BKLDLT<S> fac;
    try
    {
        fac.compute(M, uplo, R(c.shift));
    }
    catch (const std::exception& e)
    {
        L.violate(key + ":exception", c.replay, e.what());
        return false;
    }
    CompInfo info = fac.info();
    if (c.expect == MUST_REPORT)
    {
        L.count("must_report_cases");
        if (info != CompInfo::NumericalIssue)
            L.violate(key + ":singular-not-reported", c.replay, std::string("exactly singular pivot block but info()=") + info_name(info));
        return false;
    }
    if (c.expect == SINGULAR_UNKNOWN)
    {
        L.count(info == CompInfo::NumericalIssue ? "singular_reported" : "singular_not_detected_rounding");
        return false;
    }
    // nonsingular: success required
    if (info != CompInfo::Successful)
    {
        L.violate(key + ":nonsingular-not-successful", c.replay, std::string("matrix is nonsingular (cond~") + gnum(c.cond) + ") but info()=" + info_name(info));
        return false;
    }
    MatCL B = c.A - CL(c.shift) * MatCL::Identity(n, n);
    const LD nb = fro(B);
    bool ok = true;
    for (int r = (all_rhs ? 0 : n); r <= n; r++)
    {
        Vec b = Vec::Zero(n);
        if (r < n) b[r] = S(1);
        else b.setOnes();
        Vec x = fac.solve(b);
        sols.push_back(x);
        if (!all_finite(x))
        {
            L.violate(key + ":solve-nonfinite", c.replay, "solve() returned NaN/Inf for a nonsingular system, rhs#" + num(r));
            ok = false;
            continue;
        }
        VecCL xl = x.template cast<CL>(), bl = b.template cast<CL>();
        LD err = (B * xl - bl).norm(), bound = CC * n * u * (nb * xl.norm() + bl.norm());
        L.ratio("residual", bound > 0 ? err / bound : 0);
        if (!(err <= bound))
        {
            L.violate(key + ":residual", c.replay, "rhs#" + num(r) + " err=" + gnum(err) + " bound=" + gnum(bound));
            ok = false;
        }
        // solve_inplace agrees with solve
        Vec y = b;
        fac.solve_inplace(y);
        if (!(y.array() == x.array()).all()) L.violate(key + ":solve_inplace-differs", c.replay, "rhs#" + num(r));
    }
    return ok;
}

template <typename S>
static void agree(const Case& c, const std::vector<Eigen::Matrix<S, -1, 1>>& a, const std::vector<Eigen::Matrix<S, -1, 1>>& b, const char* what, Local& L)
{
    if (a.size() != b.size() || a.empty()) return;
    const int n = c.A.rows();
    const LD u = Unit<S>::u();
    for (size_t k = 0; k < a.size(); k++)
    {
        LD d = (a[k] - b[k]).template cast<CL>().norm(), s = a[k].template cast<CL>().norm();
        LD bound = 4 * CC * n * u * c.cond * s;
        L.ratio("lower-upper-agree", bound > 0 ? d / bound : 0);
        if (!(d <= bound))
            L.violate(std::string("BKLDLT:") + SN<S>::n() + ":" + c.desc + ":" + what, c.replay, "solutions differ by " + gnum(d) + " bound=" + gnum(bound));
    }
}

template <typename S>
static void run_case(const Case& c, Local& L, bool all_layouts, bool all_rhs)
{
    std::vector<Eigen::Matrix<S, -1, 1>> lc, uc, lr, ur;
    run_cfg<S, Eigen::ColMajor>(c, Eigen::Lower, L, lc, all_rhs);
    run_cfg<S, Eigen::RowMajor>(c, Eigen::Upper, L, ur, all_rhs);
    agree<S>(c, lc, ur, "Lower/Col-vs-Upper/Row", L);
    if (all_layouts)
    {
        run_cfg<S, Eigen::ColMajor>(c, Eigen::Upper, L, uc, all_rhs);
        run_cfg<S, Eigen::RowMajor>(c, Eigen::Lower, L, lr, all_rhs);
        agree<S>(c, lc, uc, "Lower/Col-vs-Upper/Col", L);
        agree<S>(c, lc, lr, "Lower/Col-vs-Lower/Row", L);
    }
}

// classify A - shift*I by an extended-precision determinant / inverse (exact values are multiples of 2^-n for the
// integer alphabets, so the threshold is unambiguous)
static void classify_small(Case& c)
{
    const int n = c.A.rows();
    MatCL B = c.A - CL(c.shift) * MatCL::Identity(n, n);
    Eigen::FullPivLU<MatCL> lu(B);
    LD det = std::abs(lu.determinant());
    if (det < 1e-3L)
    {
        c.expect = SINGULAR_UNKNOWN;
        c.cond = INFINITY;
    }
    else
    {
        c.expect = NONSINGULAR;
        c.cond = fro(B) * fro(lu.inverse());
    }
}

// graded matrices: singularity / conditioning from the singular values in long double; "nonsingular" (success required)
// only when the condition number is far from 1/u so that no computed pivot can vanish through rounding
static void classify_graded(Case& c)
{
    const int n = c.A.rows();
    MatL B = (c.A - CL(c.shift) * MatCL::Identity(n, n)).real();
    Eigen::JacobiSVD<MatL> svd(B);
    const LD smax = svd.singularValues()[0], smin = svd.singularValues()[n - 1];
    if (!(smin > 0) || smax / smin > 1e12L)
    {
        c.expect = SINGULAR_UNKNOWN;
        c.cond = INFINITY;
    }
    else
    {
        c.expect = NONSINGULAR;
        c.cond = smax / smin * n;
    }
}

static const double D4[4] = {-1, 0, 1, 2};
// graded alphabet: the pivot tests of the Bunch-Kaufman strategy compare entries of very different magnitude
static const double G7[7] = {0, 1, -1, 0.3, 1e-4, 1e4, -1e8};
static const double G5[5] = {0, 1, 0.3, 1e4, -1e8};
static const double B2[2] = {0, 1};
static const double FIXED_SHIFT[4] = {0, 1, -1, 0.5};

static MatCL sym_from(uint64_t idx, int n, const double* a, int na)
{
    MatCL A(n, n);
    for (int j = 0; j < n; j++)
        for (int i = j; i < n; i++)
        {
            A(i, j) = A(j, i) = CL(a[idx % na], 0);
            idx /= na;
        }
    return A;
}
static const std::complex<double> HOFF[5] = {{0, 0}, {1, 0}, {0, 1}, {1, 1}, {-1, 0}};
static MatCL herm_from(uint64_t idx, int n)
{
    MatCL A(n, n);
    for (int i = 0; i < n; i++)
    {
        A(i, i) = CL(double(int(idx % 3) - 1), 0);
        idx /= 3;
    }
    for (int j = 0; j < n; j++)
        for (int i = j + 1; i < n; i++)
        {
            std::complex<double> v = HOFF[idx % 5];
            idx /= 5;
            A(i, j) = CL(v.real(), v.imag());
            A(j, i) = CL(v.real(), -v.imag());
        }
    return A;
}

static std::vector<LD> shifts_for(const MatCL& A, bool reduced)
{
    std::vector<LD> s;
    auto add = [&](LD v) { for (LD w : s) if (w == v) return; s.push_back(v); };
    if (reduced) { add(0); add(0.5L); add(1); return s; }
    for (double f : FIXED_SHIFT) add(f);
    for (int i = 0; i < A.rows(); i++) add(A(i, i).real());
    return s;
}

template <typename S>
static void small_section(Runner& R, const std::string& sec, uint64_t N, std::function<MatCL(uint64_t)> gen, bool reduced, bool graded = false)
{
    R.run(sec, N, [=](uint64_t idx, Local& L) {
        MatCL A = gen(idx);
        for (LD sh : shifts_for(A, reduced))
        {
            Case c;
            c.A = A;
            c.shift = sh;
            c.desc = "A=" + mat_str(A.real()) + (Eigen::NumTraits<S>::IsComplex ? "+i*" + mat_str(A.imag()) : "") + ":shift=" + gnum(sh);
            c.replay = sec + "#" + num(idx);
            if (graded) classify_graded(c); else classify_small(c);
            L.count(c.expect == NONSINGULAR ? "nonsingular_cases" : "singular_cases");
            run_case<S>(c, L, !reduced, !reduced || graded);
        }
        L.count("distinct_by_construction");
        if (idx == 1234 % N) L.sample("{\"scalar\": \"" + std::string(SN<S>::n()) + "\", \"A\": \"" + mat_str(A.real()) + "\", \"shifts\": \"0,1,-1,0.5,diag\", \"layouts\": \"Lower/Upper x Col/RowMajor, other triangle NaN\"}", 12);
    });
}

// ------------------------------------------------------------------ families for every n in 1..80
static const int NFAM = 9;
static MatCL family(int f, int n)
{
    MatCL A = MatCL::Zero(n, n);
    auto set = [&](int i, int j, LD v) { A(i, j) = A(j, i) = CL(v, 0); };
    switch (f)
    {
        case 0:  // tridiagonal Toeplitz (-1, 2, -1)
            for (int i = 0; i < n; i++) { set(i, i, 2); if (i + 1 < n) set(i + 1, i, -1); }
            break;
        case 1:  // arrowhead
            for (int i = 0; i < n; i++) { set(i, i, i + 1); if (i) set(i, 0, 1); }
            break;
        case 2:  // anti-diagonal (all 2x2 pivots)
            for (int i = 0; i < n; i++) set(i, n - 1 - i, 1 + (i % 3));
            break;
        case 3:  // block-diag of [[0,1],[1,0]] (+ a trailing 3 when n is odd)
            for (int i = 0; i + 1 < n; i += 2) set(i + 1, i, 1);
            if (n % 2) set(n - 1, n - 1, 3);
            break;
        case 4:  // min(i,j)+1
            for (int i = 0; i < n; i++) for (int j = 0; j <= i; j++) set(i, j, j + 1);
            break;
        case 5:  // graded D*M*D, M = tridiag(1,3,1), D = 10^(-6 i/(n-1))
            for (int i = 0; i < n; i++)
            {
                LD di = std::pow(10.0L, -6.0L * i / std::max(1, n - 1));
                set(i, i, 3 * di * di);
                if (i + 1 < n) set(i + 1, i, di * std::pow(10.0L, -6.0L * (i + 1) / std::max(1, n - 1)));
            }
            break;
        case 6:  // zero diagonal + ones  (J - I)
            for (int i = 0; i < n; i++) for (int j = 0; j < i; j++) set(i, j, 1);
            break;
        case 7:  // indefinite dense: (-1)^(i+j) / (1 + |i-j|) with alternating-sign diagonal
            for (int i = 0; i < n; i++) for (int j = 0; j <= i; j++) set(i, j, (i == j) ? ((i % 2) ? -2.0L : 2.0L) : 1.0L / (1 + i - j));
            break;
        case 8:  // diagonal 1..n (shift = a diagonal entry is the exactly singular case)
            for (int i = 0; i < n; i++) set(i, i, i + 1);
            break;
    }
    return A;
}

template <typename S>
static void family_section(Runner& R)
{
    std::string sec = std::string("family_") + SN<S>::n();
    R.run(sec, uint64_t(80) * NFAM * 5, [=](uint64_t idx, Local& L) {
        int n = 1 + idx % 80, f = (idx / 80) % NFAM, si = idx / (80 * NFAM);
        MatCL A = family(f, n);
        LD sh = si < 4 ? LD(FIXED_SHIFT[si]) : A(n / 2, n / 2).real();
        Case c;
        c.A = A;
        c.shift = sh;
        c.desc = "family" + num(f) + ":n=" + num(n) + ":shift=" + gnum(sh);
        c.replay = sec + "#" + num(idx);
        MatCL B = A - CL(sh) * MatCL::Identity(n, n);
        // exact-zero-pivot sub-family: diagonal matrix with the shift on its diagonal; [[0,1],[1,0]] blocks with shift +-1
        bool must = false;
        if (f == 8) for (int i = 0; i < n; i++) if (A(i, i).real() == sh) must = true;
        if (f == 3 && n >= 2 && (sh == 1 || sh == -1)) must = true;
        if (must) { c.expect = MUST_REPORT; c.cond = INFINITY; }
        else
        {
            Eigen::JacobiSVD<MatL> svd(B.real());
            LD smax = svd.singularValues()[0], smin = svd.singularValues()[n - 1];
            c.cond = smin > 0 ? smax / smin : INFINITY;
            if (c.cond < 1e8L) c.expect = NONSINGULAR;
            else
            {
                L.count("family_skipped_ill_conditioned");
                return;
            }
        }
        L.count(c.expect == NONSINGULAR ? "nonsingular_cases" : "must_report_inputs");
        run_case<S>(c, L, true, n <= 8);
        L.count("distinct_by_construction");
    });
}

// exactly singular small cases where the zero pivot is met without rounding -> NumericalIssue required,
// and the dense wrappers must turn it into std::invalid_argument
static std::vector<std::pair<MatCL, LD>> exact_singular_cases()
{
    std::vector<std::pair<MatCL, LD>> v;
    auto M = [](std::initializer_list<std::initializer_list<double>> rows) {
        int n = rows.size();
        MatCL A(n, n);
        int i = 0;
        for (auto& r : rows) { int j = 0; for (double x : r) A(i, j++) = CL(x, 0); i++; }
        return A;
    };
    v.push_back({M({{1, 2}, {2, 4}}), 0});
    v.push_back({M({{3, 2}, {2, 6}}), 2});
    v.push_back({M({{0, 1}, {1, 0}}), 1});
    v.push_back({M({{0, 1}, {1, 0}}), -1});
    v.push_back({M({{0, 0}, {0, 0}}), 0});
    v.push_back({M({{5}}), 5});
    v.push_back({M({{0}}), 0});
    v.push_back({M({{4, 0, 0}, {0, 0, 1}, {0, 1, 0}}), 4});
    v.push_back({M({{4, 0, 0, 0, 0}, {0, 0, 1, 0, 0}, {0, 1, 0, 0, 0}, {0, 0, 0, 1, 2}, {0, 0, 0, 2, 4}}), 0});
    v.push_back({M({{2, 2, 2}, {2, 3, 4}, {2, 4, 6}}), 0});
    v.push_back({M({{1, 0, 2}, {0, 0, 0}, {2, 0, 1}}), 0});  // zero row
    v.push_back({M({{2, 1, 0}, {1, 2, 0}, {0, 0, 7}}), 7});
    for (int n = 2; n <= 6; n++)  // diagonal, shift = every diagonal entry
        for (int k = 0; k < n; k++)
        {
            MatCL A = MatCL::Zero(n, n);
            for (int i = 0; i < n; i++) A(i, i) = CL(i + 1, 0);
            v.push_back({A, LD(k + 1)});
        }
    return v;
}

template <typename S, int Uplo, int Order>
static void wrapper_case(const MatCL& A, LD shift, bool singular, const std::string& replay, Local& L)
{
    using Mat = Eigen::Matrix<S, -1, -1, Order>;
    const int n = A.rows();
    Mat M(n, n);
    for (int i = 0; i < n; i++)
        for (int j = 0; j < n; j++)
        {
            bool used = (Uplo == Eigen::Lower) ? (i >= j) : (i <= j);
            M(i, j) = used ? S(A(i, j).real()) : poison<S>();
        }
    std::string key = std::string("wrapper:") + SN<S>::n() + ":" + (Uplo == Eigen::Lower ? "Lower" : "Upper") + ":" + (Order == Eigen::RowMajor ? "RowMajor" : "ColMajor") + ":A=" + mat_str(A.real()) + ":shift=" + gnum(shift);
    // DenseSymShiftSolve
    {
        L.evaluations++;
        Spectra::DenseSymShiftSolve<S, Uplo, Order> op(M);
        bool threw = false, other = false;
        std::string what;
        try { op.set_shift(S(shift)); }
        catch (const std::invalid_argument& e) { threw = true; }
        catch (const std::exception& e) { other = true; what = e.what(); }
        if (other) L.violate(key + ":DenseSymShiftSolve:wrong-exception", replay, what);
        else if (singular && !threw) L.violate(key + ":DenseSymShiftSolve:no-exception-on-singular", replay, "set_shift() accepted an exactly singular shifted matrix");
        else if (!singular && threw) L.violate(key + ":DenseSymShiftSolve:exception-on-nonsingular", replay, "set_shift() threw for a nonsingular shifted matrix");
        else if (!singular)
        {
            Eigen::Matrix<S, -1, 1> b = Eigen::Matrix<S, -1, 1>::Ones(n), x(n);
            op.perform_op(b.data(), x.data());
            MatL B = (A - CL(shift) * MatCL::Identity(n, n)).real();
            LD err = (B * toL(x) - toL(b)).norm(), bound = CC * n * Unit<S>::u() * (fro(B) * toL(x).norm() + toL(b).norm());
            L.ratio("wrapper-residual", bound > 0 ? err / bound : 0);
            if (!(err <= bound)) L.violate(key + ":DenseSymShiftSolve:residual", replay, "err=" + gnum(err) + " bound=" + gnum(bound));
        }
    }
    // SymShiftInvert<dense, dense> with B = I (same shifted matrix)
    {
        L.evaluations++;
        Mat Bm = Mat::Identity(n, n);
        Spectra::SymShiftInvert<S, Eigen::Dense, Eigen::Dense, Uplo, Uplo, Order, Order> op(M, Bm);
        bool threw = false, other = false;
        std::string what;
        try { op.set_shift(S(shift)); }
        catch (const std::invalid_argument& e) { threw = true; }
        catch (const std::exception& e) { other = true; what = e.what(); }
        if (other) L.violate(key + ":SymShiftInvert:wrong-exception", replay, what);
        else if (singular && !threw) L.violate(key + ":SymShiftInvert:no-exception-on-singular", replay, "set_shift() accepted an exactly singular A - sigma*B");
        else if (!singular && threw) L.violate(key + ":SymShiftInvert:exception-on-nonsingular", replay, "set_shift() threw for a nonsingular A - sigma*B");
    }
}


// ------------------------------------------------------------------ histories on ONE factorization object
// The class documents compute() as (re)computing the factorization: a BKLDLT object that has already factorized
// (M1, s1) and then factorizes (M2, s2) must behave exactly like a fresh object given (M2, s2) - status and solve()
// bit for bit (the same arithmetic is executed). A state is the object after a history of compute() calls; the
// differential oracle compares the state reached from a non-initial state with the one reached from the initial state.
struct Cfg10 { Eigen::MatrixXd M; double shift; std::string d; };
static void reuse_check(Spectra::BKLDLT<double>& used, const Cfg10& last, const std::string& hist, const std::string& replay, Local& L)
{
    const int n = last.M.rows();
    Spectra::BKLDLT<double> fresh;
    fresh.compute(last.M, Eigen::Lower, last.shift);
    L.evaluations++;
    const std::string key = "BKLDLT:reuse:" + hist;
    if (used.info() != fresh.info())
    {
        L.violate(key + ":status-differs", replay, std::string("reused object reports ") + info_name(used.info()) + ", a fresh object " + info_name(fresh.info()));
        return;
    }
    if (fresh.info() != CompInfo::Successful) { L.count("reuse_last_singular"); return; }
    for (int r = 0; r <= n; r++)
    {
        Eigen::VectorXd b = Eigen::VectorXd::Zero(n);
        if (r < n) b[r] = 1; else b.setOnes();
        Eigen::VectorXd xu, xf = fresh.solve(b);
        try { xu = used.solve(b); }
        catch (const std::exception& e) { L.violate(key + ":exception", replay, e.what()); return; }
        if (xu.size() != xf.size() || std::memcmp(xu.data(), xf.data(), sizeof(double) * n) != 0)
        {
            L.violate(key + ":solve-differs", replay, "solve(rhs#" + num(r) + ") of the reused object differs from a fresh object's: " + mat_str(MatL(toL(xu).transpose())) + " vs " + mat_str(MatL(toL(xf).transpose())));
            return;
        }
    }
}
static std::vector<Cfg10> reuse_alphabet(int n, bool all_shifts)
{
    std::vector<Cfg10> v;
    const uint64_t N = ipow(4, n * (n + 1) / 2);
    for (uint64_t i = 0; i < N; i++)
    {
        MatCL A = sym_from(i, n, D4, 4);
        for (double sh : {0.0, 0.5})
        {
            if (!all_shifts && sh != 0.0) continue;
            v.push_back({Eigen::MatrixXd(A.real().cast<double>()), sh, "A=" + mat_str(A.real()) + ":shift=" + std::string(gnum(sh))});
        }
    }
    return v;
}

int main(int argc, char** argv)
{
    Config cfg = parse_args(argc, argv, 240, 1500);
    Runner R("C10", cfg);
    const bool th = cfg.thorough();

    for (int n = 1; n <= 3; n++)
    {
        small_section<double>(R, "sym_double_D4_n" + num(n), ipow(4, n * (n + 1) / 2), [n](uint64_t i) { return sym_from(i, n, D4, 4); }, false);
        small_section<float>(R, "sym_float_D4_n" + num(n), ipow(4, n * (n + 1) / 2), [n](uint64_t i) { return sym_from(i, n, D4, 4); }, false);
    }
    small_section<double>(R, "sym_double_D4_n4", ipow(4, 10), [](uint64_t i) { return sym_from(i, 4, D4, 4); }, !th);
    for (int n = 1; n <= 3; n++)
        small_section<std::complex<double>>(R, "herm_cdouble_n" + num(n), ipow(3, n) * ipow(5, n * (n - 1) / 2), [n](uint64_t i) { return herm_from(i, n); }, false);
    small_section<std::complex<float>>(R, "herm_cfloat_n2", 9 * 5, [](uint64_t i) { return herm_from(i, 2); }, false);
    family_section<double>(R);
    family_section<float>(R);
    // graded entries (magnitudes 1e-4 .. 1e8): every symmetric 3x3 over G7; 4x4 over G5 in the thorough tier
    small_section<double>(R, "sym_double_G7_n3", ipow(7, 6), [](uint64_t i) { return sym_from(i, 3, G7, 7); }, true, true);
    if (th) small_section<double>(R, "sym_double_G5_n4", ipow(5, 10), [](uint64_t i) { return sym_from(i, 4, G5, 5); }, true, true);

    // exactly singular sub-family + wrappers
    auto sing = exact_singular_cases();
    R.run("exact_singular", sing.size(), [&](uint64_t idx, Local& L) {
        Case c;
        c.A = sing[idx].first;
        c.shift = sing[idx].second;
        c.expect = MUST_REPORT;
        c.cond = INFINITY;
        c.desc = "A=" + mat_str(c.A.real()) + ":shift=" + gnum(c.shift);
        c.replay = "exact_singular#" + num(idx);
        run_case<double>(c, L, true, false);
        run_case<float>(c, L, true, false);
        run_case<std::complex<double>>(c, L, true, false);
        wrapper_case<double, Eigen::Lower, Eigen::ColMajor>(c.A, c.shift, true, c.replay, L);
        wrapper_case<double, Eigen::Upper, Eigen::ColMajor>(c.A, c.shift, true, c.replay, L);
        wrapper_case<double, Eigen::Lower, Eigen::RowMajor>(c.A, c.shift, true, c.replay, L);
        wrapper_case<double, Eigen::Upper, Eigen::RowMajor>(c.A, c.shift, true, c.replay, L);
        wrapper_case<float, Eigen::Upper, Eigen::RowMajor>(c.A, c.shift, true, c.replay, L);
        L.count("distinct_by_construction");
    });
    // wrappers on every nonsingular / singular-by-determinant 1x1..3x3 matrix
    for (int n = 1; n <= 3; n++)
    {
        std::string sec = "wrapper_D4_n" + num(n);
        R.run(sec, ipow(4, n * (n + 1) / 2), [=](uint64_t idx, Local& L) {
            MatCL A = sym_from(idx, n, D4, 4);
            for (LD sh : shifts_for(A, false))
            {
                Case c;
                c.A = A;
                c.shift = sh;
                classify_small(c);
                if (c.expect != NONSINGULAR) continue;
                std::string rp = sec + "#" + num(idx);
                wrapper_case<double, Eigen::Lower, Eigen::ColMajor>(A, sh, false, rp, L);
                wrapper_case<double, Eigen::Upper, Eigen::ColMajor>(A, sh, false, rp, L);
                wrapper_case<double, Eigen::Lower, Eigen::RowMajor>(A, sh, false, rp, L);
                wrapper_case<double, Eigen::Upper, Eigen::RowMajor>(A, sh, false, rp, L);
            }
            L.count("distinct_by_construction");
        });
    }

    // histories: every ordered pair (thorough: triple for n<=2) of configurations on one object, sizes mixed
    {
        static std::vector<Cfg10> a1 = reuse_alphabet(1, true), a2 = reuse_alphabet(2, true), a3 = reuse_alphabet(3, false);
        static std::vector<Cfg10> small;  // n = 1 and n = 2, both shifts
        small = a1; small.insert(small.end(), a2.begin(), a2.end());
        // (i) every ordered pair over the 1x1 and 2x2 configurations (sizes change between calls)
        R.run("reuse_pairs_n12", uint64_t(small.size()) * small.size(), [&](uint64_t idx, Local& L) {
            const Cfg10 &c1 = small[idx / small.size()], &c2 = small[idx % small.size()];
            Spectra::BKLDLT<double> f;
            f.compute(c1.M, Eigen::Lower, c1.shift);
            f.compute(c2.M, Eigen::Lower, c2.shift);
            reuse_check(f, c2, c1.d + ";" + c2.d, "reuse_pairs_n12#" + num(idx), L);
            L.count("distinct_by_construction");
            if (idx == 4321) L.sample("{\"history\": \"compute(" + c1.d + "); compute(" + c2.d + "); solve\", \"oracle\": \"bit-identical to a fresh object\"}", 12);
        });
        // (ii) every 3x3 matrix over {-1,0,1,2} preceded by / followed by every member of a second alphabet that contains
        //      every pivot pattern (all 2x2 configurations and every 16th 3x3 matrix; thorough: every 3x3 matrix)
        static std::vector<Cfg10> second;
        second = a2;
        for (size_t i = 0; i < a3.size(); i += (th ? 1 : 16)) second.push_back(a3[i]);
        R.run("reuse_pairs_n3", uint64_t(a3.size()) * second.size(), [&](uint64_t idx, Local& L) {
            const Cfg10 &c3 = a3[idx / second.size()], &cs = second[idx % second.size()];
            {
                Spectra::BKLDLT<double> f;
                f.compute(cs.M, Eigen::Lower, cs.shift);
                f.compute(c3.M, Eigen::Lower, c3.shift);
                reuse_check(f, c3, cs.d + ";" + c3.d, "reuse_pairs_n3#" + num(idx), L);
            }
            {
                Spectra::BKLDLT<double> f;
                f.compute(c3.M, Eigen::Lower, c3.shift);
                f.compute(cs.M, Eigen::Lower, cs.shift);
                reuse_check(f, cs, c3.d + ";" + cs.d, "reuse_pairs_n3#" + num(idx), L);
            }
            L.count("distinct_by_construction");
        });
        // (iii) triples over the 2x2 configurations at shift 0 (64^3)
        static std::vector<Cfg10> a2s = reuse_alphabet(2, false);
        R.run("reuse_triples_n2", ipow(a2s.size(), 3), [&](uint64_t idx, Local& L) {
            const size_t m = a2s.size();
            const Cfg10 &c1 = a2s[idx / (m * m)], &c2 = a2s[(idx / m) % m], &c3 = a2s[idx % m];
            Spectra::BKLDLT<double> f;
            f.compute(c1.M, Eigen::Lower, c1.shift);
            f.compute(c2.M, Eigen::Lower, c2.shift);
            f.compute(c3.M, Eigen::Lower, c3.shift);
            reuse_check(f, c3, c1.d + ";" + c2.d + ";" + c3.d, "reuse_triples_n2#" + num(idx), L);
            L.count("distinct_by_construction");
        });
        // (iv) the dense wrapper: set_shift(s1); set_shift(s2) on one DenseSymShiftSolve object against a fresh one
        R.run("reuse_set_shift_n3", a3.size(), [&](uint64_t idx, Local& L) {
            const Cfg10& c = a3[idx];
            const double sh[] = {0, 0.5, -1, 1, 2, 0.37};
            for (double s1 : sh)
                for (double s2 : sh)
                {
                    Spectra::DenseSymShiftSolve<double> used(c.M), fresh(c.M);
                    bool t1 = false, tu = false, tf = false;
                    try { used.set_shift(s1); } catch (const std::invalid_argument&) { t1 = true; }
                    try { used.set_shift(s2); } catch (const std::invalid_argument&) { tu = true; }
                    try { fresh.set_shift(s2); } catch (const std::invalid_argument&) { tf = true; }
                    L.evaluations++;
                    const std::string key = "wrapper:reuse:" + c.d + ":set_shift(" + std::string(gnum(s1)) + ");set_shift(" + std::string(gnum(s2)) + ")";
                    if (tu != tf) { L.violate(key + ":status-differs", "reuse_set_shift_n3#" + num(idx), "second set_shift() " + std::string(tu ? "threw" : "did not throw") + " but a fresh wrapper " + (tf ? "throws" : "does not")); continue; }
                    if (tf) continue;
                    Eigen::Vector3d b(1, 1, 1), xu, xf;
                    used.perform_op(b.data(), xu.data());
                    fresh.perform_op(b.data(), xf.data());
                    if (std::memcmp(xu.data(), xf.data(), sizeof(double) * 3) != 0)
                        L.violate(key + ":solve-differs", "reuse_set_shift_n3#" + num(idx), "perform_op after the second set_shift() differs from a fresh wrapper's");
                }
            L.count("distinct_by_construction");
        });
    }
    if (th)
    {
        small_section<double>(R, "sym_double_B2_n5", ipow(2, 15), [](uint64_t i) { return sym_from(i, 5, B2, 2); }, false);
        small_section<long double>(R, "sym_longdouble_D4_n3", ipow(4, 6), [](uint64_t i) { return sym_from(i, 3, D4, 4); }, false);
        small_section<std::complex<float>>(R, "herm_cfloat_n3", 27 * 125, [](uint64_t i) { return herm_from(i, 3); }, false);
        small_section<float>(R, "sym_float_D4_n4", ipow(4, 10), [](uint64_t i) { return sym_from(i, 4, D4, 4); }, true);
    }

    return R.finish(
        "every symmetric 3x3 matrix over the graded alphabet {0,1,-1,0.3,1e-4,1e4,-1e8} (4x4 over {0,1,0.3,1e4,-1e8} in thorough; success required when cond <= 1e12); every symmetric matrix over {-1,0,1,2} for n=1..4 (n=4: reduced shift/layout set in quick, full in thorough), over {0,1} for n=5 (thorough), every Hermitian matrix with diagonal in {-1,0,1} and off-diagonal in {0,1,i,1+i,-1} for n<=3; "
        "shifts {0,1,-1,1/2} + every diagonal entry; {Lower,Upper} x {ColMajor,RowMajor} with the unused strict triangle set to NaN; rhs e_i and ones; nine structured families for EVERY n in 1..80 x 5 shifts; "
        "the sub-family whose zero pivot is met without rounding (NumericalIssue required) and the dense wrappers DenseSymShiftSolve / SymShiftInvert<dense,dense>; histories on one object: every ordered pair of 1x1/2x2 configurations, every 3x3 matrix before/after a second alphabet, every triple of 2x2 matrices, every pair of shifts on one wrapper - status and solve() bit-identical to a fresh object. Singularity decided by an extended-precision determinant "
        "(exact values are multiples of 2^-n, threshold 1e-3)",
        {"long double LU/SVD of Eigen decide singularity and conditioning", "residual allowance 50*n*u*(||A-sI|| ||x|| + ||b||) fixed a priori", "for exactly singular matrices outside the listed sub-family no outcome is required (rounding may hide the zero pivot); they are counted"});
}

// C13 (b) - the restart-size function and the shift loop over ALL abstract Ritz states.
// With private access the harness writes m_ritz_val / m_ritz_est of a real solver object (whose factorization was
// built by the real init() + factorize_from()) and calls the real nev_adjusted(nconv) and restart(k) for EVERY
//   (nev, ncv), nconv in 0..nev-1, number of below-near_0 estimates among the unwanted values, and
//   every arrangement of the ncv Ritz slots into real values / conjugate pairs (adjacent, reversed, and split by ties).
// Oracle: 1 <= k <= ncv-1 (ncv-2 + pair adjustment for the general solver), an adjacent conjugate pair is never split
// at k, the shift loop never indexes outside m_ritz_val (Eigen index assertion -> exception; ASan for raw accesses),
// restart() returns with the factorization at dimension ncv and A V = V H + f e', V'V = I still hold.
#include "engine/common.h"
#include "engine/oracle.h"
#include <Eigen/Eigenvalues>
#include <Spectra/GenEigsSolver.h>
#include <Spectra/SymEigsSolver.h>
#include <Spectra/MatOp/DenseGenMatProd.h>
#include <Spectra/MatOp/DenseSymMatProd.h>

using namespace vf;
using Spectra::SortRule;

static Eigen::MatrixXd test_matrix(int n, bool sym)
{
    Eigen::MatrixXd A = Eigen::MatrixXd::Zero(n, n);
    for (int i = 0; i < n; i++)
    {
        A(i, i) = double((i * 7) % 5) - 1.5;
        if (i + 1 < n) { A(i, i + 1) = 1.0 + 0.25 * (i % 3); A(i + 1, i) = sym ? A(i, i + 1) : -0.5 - 0.125 * (i % 4); }
        if (i + 2 < n) { A(i, i + 2) = 0.3; A(i + 2, i) = sym ? 0.3 : 0.1; }
    }
    return A;
}

template <class Solver>
static bool fac_ok(const Solver& s, const Eigen::MatrixXd& A, std::string& why)
{
    const auto& F = s.m_fac;
    const long k = F.m_k;
    MatL V = F.m_fac_V.leftCols(k).template cast<LD>(), H = F.m_fac_H.topLeftCorner(k, k).template cast<LD>();
    VecL f = F.m_fac_f.template cast<LD>();
    MatL Al = A.cast<LD>();
    MatL Rm = Al * V - V * H;
    Rm.col(k - 1) -= f;
    const LD r = maxabs(Rm), g = maxabs(MatL(V.transpose() * V - MatL::Identity(k, k))), sc = fro(Al);
    if (!(r <= 1e-9L * sc)) { why = "max|AV-VH-fe'|=" + std::string(gnum(r)); return false; }
    if (!(g <= 1e-9L)) { why = "max|V'V-I|=" + std::string(gnum(g)); return false; }
    return true;
}

// slot types: 0 real, 1 complex with +imag, 2 complex with -imag; the j-th '1' and the j-th '2' are conjugates
static bool arrangement(uint64_t code, int ncv, std::vector<std::complex<double>>& vals)
{
    std::vector<int> t(ncv);
    int nu = 0, nd = 0;
    for (int i = 0; i < ncv; i++) { t[i] = code % 3; code /= 3; nu += t[i] == 1; nd += t[i] == 2; }
    if (nu != nd) return false;
    vals.assign(ncv, 0);
    int iu = 0, id = 0, ir = 0;
    for (int i = 0; i < ncv; i++)
    {
        if (t[i] == 0) vals[i] = std::complex<double>(0.1 * (++ir), 0);
        else if (t[i] == 1) { vals[i] = std::complex<double>(0.5 + iu, 1.0 + iu); iu++; }
        else { vals[i] = std::complex<double>(0.5 + id, -(1.0 + id)); id++; }
    }
    return true;
}

int main(int argc, char** argv)
{
    Config cfg = parse_args(argc, argv, 200, 1200);
    Runner R("C13", cfg);
    const bool q = cfg.quick();
    const int NCV_ADJ = q ? 10 : 12;   // nev_adjusted over all arrangements
    const int NCV_RST = q ? 7 : 9;    // restart() actually executed

    // ---------------- general solver
    for (int ncv = 3; ncv <= NCV_ADJ; ncv++)
    {
        const int n = ncv + 2;
        const Eigen::MatrixXd A = test_matrix(n, false);
        R.run("gen_ncv" + num(ncv), ipow(3, ncv), [&, ncv, n](uint64_t code, Local& L) {
            std::vector<std::complex<double>> vals;
            if (!arrangement(code, ncv, vals)) return;
            using Op = Spectra::DenseGenMatProd<double>;
            using Solver = Spectra::GenEigsSolver<Op>;
            Eigen::MatrixXd M = A;
            Op op(M);
            for (int nev = 1; nev <= ncv - 2; nev++)
            {
                Solver s(op, nev, ncv);
                s.init();
                s.m_fac.factorize_from(1, ncv, s.m_nmatop);
                for (int nsmall = 0; nsmall <= ncv - nev; nsmall++)
                    for (int nconv = 0; nconv <= nev - 1; nconv++)
                    {
                        for (int i = 0; i < ncv; i++)
                        {
                            s.m_ritz_val[i] = vals[i];
                            s.m_ritz_est[i] = (i >= nev && i - nev < nsmall) ? std::complex<double>(0, 0) : std::complex<double>(0.1, 0.05);
                        }
                        const std::string key = "GenEigsSolver|ncv=" + num(ncv) + ",nev=" + num(nev) + "|arr=" + num(code) + "|nsmall=" + num(nsmall) + ",nconv=" + num(nconv);
                        const std::string rp = "gen_ncv" + num(ncv) + "#" + num(code);
                        L.evaluations++;
                        long k = -1;
                        try
                        {
                            k = s.nev_adjusted(nconv);
                        }
                        catch (const std::exception& e)
                        {
                            L.violate(key + "|nev_adjusted-exception", rp, e.what());
                            continue;
                        }
                        if (k < 1 || k > ncv - 1) L.violate(key + "|k-range", rp, "nev_adjusted returned " + num(k) + " for ncv=" + num(ncv));
                        else
                        {
                            const bool adj_pair = vals[k - 1].imag() != 0 && vals[k - 1] == std::conj(vals[k]);
                            if (adj_pair) L.violate(key + "|pair-split", rp, "k=" + num(k) + " cuts the adjacent conjugate pair at slots " + num(k - 1) + "," + num(k));
                            L.count(k >= ncv - 1 ? "k_at_upper_clamp" : "k_interior");
                        }
                        Fnv h; h.pod(code); h.pod(nev); h.pod(k);
                        L.distinct.insert(h.h);
                        L.sample("{\"abstract_state\": " + jstr(key) + ", \"nev_adjusted\": " + num(k) + "}", 4);
                        if (ncv <= NCV_RST && k >= 1 && k <= ncv - 1 && nsmall == 0)
                        {
                            // execute the real restart on a freshly built factorization
                            Solver s2(op, nev, ncv);
                            s2.init();
                            s2.m_fac.factorize_from(1, ncv, s2.m_nmatop);
                            for (int i = 0; i < ncv; i++) s2.m_ritz_val[i] = vals[i];
                            try
                            {
                                s2.restart(k, SortRule::LargestMagn);
                                L.transitions++;
                                L.count("restarts_executed");
                                std::string why;
                                if (s2.m_fac.subspace_dim() != ncv) L.violate(key + "|dimension", rp, "dimension after restart " + num(long(s2.m_fac.subspace_dim())));
                                else if (!fac_ok(s2, A, why)) L.violate(key + "|factorization", rp, why);
                            }
                            catch (const EigenAssert& e)
                            {
                                L.violate(key + "|index-assertion", rp, std::string("restart(k=") + num(k) + "): " + e.what());
                            }
                            catch (const std::exception& e)
                            {
                                L.count("restart_threw_std_exception");
                            }
                        }
                    }
            }
        });
    }
    // ---------------- symmetric solver (all Ritz values real: only the counts matter)
    for (int ncv = 2; ncv <= (q ? 12 : 16); ncv++)
    {
        const int n = ncv + 1;
        const Eigen::MatrixXd A = test_matrix(n, true);
        R.run("sym_ncv" + num(ncv), uint64_t(ncv - 1), [&, ncv, n](uint64_t w, Local& L) {
            const int nev = int(w) + 1;
            using Op = Spectra::DenseSymMatProd<double>;
            using Solver = Spectra::SymEigsSolver<Op>;
            Eigen::MatrixXd M = A;
            Op op(M);
            for (int nsmall = 0; nsmall <= ncv - nev; nsmall++)
                for (int nconv = 0; nconv <= nev - 1; nconv++)
                {
                    Solver s(op, nev, ncv);
                    s.init();
                    s.m_fac.factorize_from(1, ncv, s.m_nmatop);
                    s.retrieve_ritzpair(SortRule::LargestAlge);
                    for (int i = 0; i < ncv; i++) s.m_ritz_est[i] = (i >= nev && i - nev < nsmall) ? 0.0 : 0.1;
                    const std::string key = "SymEigsSolver|ncv=" + num(ncv) + ",nev=" + num(nev) + "|nsmall=" + num(nsmall) + ",nconv=" + num(nconv);
                    const std::string rp = "sym_ncv" + num(ncv) + "#" + num(w);
                    L.evaluations++;
                    try
                    {
                        const long k = s.nev_adjusted(nconv);
                        if (k < 1 || k > ncv - 1) { L.violate(key + "|k-range", rp, "nev_adjusted returned " + num(k)); continue; }
                        Fnv h; h.pod(ncv); h.pod(nev); h.pod(nsmall); h.pod(nconv);
                        L.distinct.insert(h.h);
                        s.restart(k, SortRule::LargestAlge);
                        L.transitions++;
                        L.count("restarts_executed");
                        std::string why;
                        if (s.m_fac.subspace_dim() != ncv) L.violate(key + "|dimension", rp, "dimension after restart " + num(long(s.m_fac.subspace_dim())));
                        else if (!fac_ok(s, A, why)) L.violate(key + "|factorization", rp, why);
                    }
                    catch (const EigenAssert& e) { L.violate(key + "|index-assertion", rp, e.what()); }
                    catch (const std::exception& e) { L.violate(key + "|exception", rp, e.what()); }
                }
        });
    }
    return R.finish("every (nev,ncv<=" + num(NCV_ADJ) + ") x every arrangement of the ncv Ritz slots into reals / conjugate pairs (3^ncv codes, balanced ones kept) x every nconv x every count of negligible estimates: real nev_adjusted(); real restart(k) executed for ncv<=" + num(NCV_RST) + "; distinct = distinct (arrangement, nev, k)",
                    {"the factorization the restart acts on is built by the real init()+factorize_from() on a fixed banded test matrix; Ritz values written are arbitrary (any shift is algebraically admissible)"});
}

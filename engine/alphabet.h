// Finite matrix / vector alphabets shared by the solver harnesses (DESIGN.md section 3).
// Every family is an index space: size() and get(idx) -> exact matrix in long double / complex long double.
#pragma once
#include "engine/common.h"
#include "engine/oracle.h"

namespace vf {

// ---------------------------------------------------------------- S-INT(n, D): all symmetric n x n matrices over D
inline uint64_t sint_count(int n, int nd) { return ipow(nd, n * (n + 1) / 2); }
inline MatL sint_get(int n, const std::vector<LD>& D, uint64_t idx)
{
    MatL A(n, n);
    for (int j = 0; j < n; j++)
        for (int i = j; i < n; i++)
        {
            A(i, j) = A(j, i) = D[idx % D.size()];
            idx /= D.size();
        }
    return A;
}
// ---------------------------------------------------------------- G-INT(n, D): all n x n matrices over D
inline uint64_t gint_count(int n, int nd) { return ipow(nd, n * n); }
inline MatL gint_get(int n, const std::vector<LD>& D, uint64_t idx)
{
    MatL A(n, n);
    for (int j = 0; j < n; j++)
        for (int i = 0; i < n; i++)
        {
            A(i, j) = D[idx % D.size()];
            idx /= D.size();
        }
    return A;
}
// ---------------------------------------------------------------- H-INT(n): Hermitian, diag in D3, strict upper in {0,1,-1,i,-i,1+i}
inline uint64_t hint_count(int n) { return ipow(3, n) * ipow(6, n * (n - 1) / 2); }
inline MatCL hint_get(int n, uint64_t idx)
{
    static const CL U[6] = {CL(0, 0), CL(1, 0), CL(-1, 0), CL(0, 1), CL(0, -1), CL(1, 1)};
    MatCL A(n, n);
    for (int i = 0; i < n; i++)
    {
        A(i, i) = CL(LD(int(idx % 3) - 1), 0);
        idx /= 3;
    }
    for (int j = 0; j < n; j++)
        for (int i = 0; i < j; i++)
        {
            A(i, j) = U[idx % 6];
            A(j, i) = std::conj(A(i, j));
            idx /= 6;
        }
    return A;
}

// ---------------------------------------------------------------- orthogonal catalogue Q(n)
inline MatL householder(const VecL& u)
{
    const int n = u.size();
    return MatL::Identity(n, n) - (LD(2) / u.squaredNorm()) * (u * u.transpose());
}
inline int qcat_count(int n) { return 4 + (n - 2); }  // I, cyclic perm, H(ones), H(1..n), blockdiag(H_k, I) k=2..n-1
inline MatL qcat_get(int n, int q, std::string* name = nullptr)
{
    MatL Q = MatL::Identity(n, n);
    std::string nm;
    if (q == 0) nm = "I";
    else if (q == 1)
    {
        Q.setZero();
        for (int i = 0; i < n; i++) Q((i + 1) % n, i) = 1;
        nm = "cyc";
    }
    else if (q == 2)
    {
        Q = householder(VecL::Ones(n));
        nm = "Hones";
    }
    else if (q == 3)
    {
        VecL u(n);
        for (int i = 0; i < n; i++) u[i] = i + 1;
        Q = householder(u);
        nm = "Hramp";
    }
    else
    {
        int k = q - 4 + 2;  // 2..n-1
        VecL u(k);
        for (int i = 0; i < k; i++) u[i] = i + 1;
        Q.topLeftCorner(k, k) = householder(u);
        nm = "Hblk" + num(k);
    }
    if (name) *name = nm;
    return Q;
}

// ---------------------------------------------------------------- spectrum catalogue Lambda(n)
inline int lcat_count() { return 10; }
inline VecL lcat_get(int n, int l, std::string* name = nullptr)
{
    VecL d(n);
    std::string nm;
    switch (l)
    {
        case 0: for (int i = 0; i < n; i++) d[i] = i + 1; nm = "generic"; break;
        case 1: for (int i = 0; i < n; i++) d[i] = LD(i) - LD(n - 1) / 2; nm = "symm0"; break;
        case 2: for (int i = 0; i < n; i++) d[i] = (i < 3) ? 1 + LD(i) * 1e-6L : LD(i - 1); nm = "cluster"; break;
        case 3: for (int i = 0; i < n; i++) d[i] = 1 + i / 2; nm = "repeated"; break;
        case 4: for (int i = 0; i < n; i++) d[i] = std::pow(LD(10), -8 * LD(i) / (n - 1)); nm = "graded"; break;
        case 5: d.setZero(); d[0] = 3; nm = "rank1"; break;
        case 6: d.setZero(); d[0] = 3; d[1] = -2; nm = "rank2"; break;
        case 7: for (int i = 0; i < n; i++) d[i] = (i % 2 ? -1 : 1) * LD(1 + i / 2); nm = "pmpairs"; break;
        case 8: for (int i = 0; i < n; i++) d[i] = 2; d[0] = 5; nm = "twovalues"; break;
        default: for (int i = 0; i < n; i++) d[i] = -LD(i + 1) * LD(i + 1); nm = "negsq"; break;
    }
    if (name) *name = nm;
    return d;
}

// ---------------------------------------------------------------- structured symmetric families S-STRUCT(n)
inline int sstruct_count(int n) { return 5 + (n - 1); }
inline MatL sstruct_get(int n, int s, std::string* name = nullptr)
{
    MatL A = MatL::Zero(n, n);
    std::string nm;
    auto lap = [](int k) {
        MatL L = MatL::Zero(k, k);
        for (int i = 0; i < k; i++)
        {
            L(i, i) = 2;
            if (i + 1 < k) L(i, i + 1) = L(i + 1, i) = -1;
        }
        return L;
    };
    if (s == 0) { A = lap(n); nm = "lap"; }
    else if (s == 1)
    {
        for (int i = 0; i < n; i++)
        {
            A(i, i) = std::abs(LD(n - 1) / 2 - i);
            if (i + 1 < n) A(i, i + 1) = A(i + 1, i) = 1;
        }
        nm = "wilkinson";
    }
    else if (s == 2)
    {
        for (int i = 0; i < n; i++)
        {
            A(i, i) = i + 1;
            A(i, n - 1) = A(n - 1, i) = 1;
        }
        A(n - 1, n - 1) = n;
        nm = "arrow";
    }
    else if (s == 3) { A.setOnes(); nm = "ones"; }
    else if (s == 4)
    {
        // diag(1..n) + coupling on the leading (n-1) block, last coordinate decoupled
        for (int i = 0; i < n; i++) A(i, i) = i + 1;
        for (int i = 0; i + 2 < n; i++) A(i, i + 1) = A(i + 1, i) = LD(0.5);
        nm = "decoupled";
    }
    else
    {
        int k = s - 5 + 1;  // 1..n-1
        A.topLeftCorner(k, k) = lap(k);
        A.bottomRightCorner(n - k, n - k) = lap(n - k);
        nm = "blklap" + num(k);
    }
    if (name) *name = nm;
    return A;
}

inline const std::vector<LD>& D3()
{
    static const std::vector<LD> d = {-1, 0, 1};
    return d;
}
inline const std::vector<LD>& D01()
{
    static const std::vector<LD> d = {0, 1};
    return d;
}

// all (nev, ncv) legal for the symmetric / general classes
inline std::vector<std::pair<int, int>> cfg_sym(int n)
{
    std::vector<std::pair<int, int>> r;
    for (int nev = 1; nev <= n - 1; nev++)
        for (int ncv = nev + 1; ncv <= n; ncv++) r.push_back({nev, ncv});
    return r;
}
inline std::vector<std::pair<int, int>> cfg_gen(int n)
{
    std::vector<std::pair<int, int>> r;
    for (int nev = 1; nev <= n - 2; nev++)
        for (int ncv = nev + 2; ncv <= n; ncv++) r.push_back({nev, ncv});
    return r;
}

}  // namespace vf

// Shared engine for all harnesses: exhaustive index-space enumeration over worker
// threads with deterministic merge, violation / counter / sample collection, JSON result file.
//
// A harness is a list of *sections*; a section is a finite index space [0, N) plus a function that
// runs the real library code on case `idx` and evaluates the oracles.  Nothing is sampled: every index
// is visited unless the wall-clock deadline fires, in which case the result says exhaustive=false
// and how many indices of which section were completed.
#pragma once

#ifndef VF_NO_EIGEN_ASSERT_THROW
#include <stdexcept>
#include <string>
namespace vf {
struct EigenAssert : std::logic_error
{
    explicit EigenAssert(const char* what) : std::logic_error(std::string("eigen_assert: ") + what) {}
};
}  // namespace vf
// An Eigen index/size assertion becomes an observable outcome instead of an abort.
#define eigen_assert(x) \
    do { if (!(x)) throw ::vf::EigenAssert(#x); } while (0)
#endif

#include <atomic>
#include <chrono>
#include <cinttypes>
#include <cmath>
#include <cstdint>
#include <cstdio>
#include <cstdlib>
#include <cstring>
#include <functional>
#include <map>
#include <mutex>
#include <set>
#include <sstream>
#include <string>
#include <thread>
#include <vector>

namespace vf {

inline double now_s()
{
    using namespace std::chrono;
    return duration<double>(steady_clock::now().time_since_epoch()).count();
}

// ---------------------------------------------------------------- JSON helpers
inline std::string jstr(const std::string& s)
{
    std::string o = "\"";
    for (unsigned char c : s)
    {
        switch (c)
        {
            case '"': o += "\\\""; break;
            case '\\': o += "\\\\"; break;
            case '\n': o += "\\n"; break;
            case '\t': o += "\\t"; break;
            default:
                if (c < 0x20)
                {
                    char b[8];
                    snprintf(b, sizeof b, "\\u%04x", c);
                    o += b;
                }
                else
                    o += char(c);
        }
    }
    return o + "\"";
}

template <typename T>
inline std::string num(T v)
{
    std::ostringstream os;
    os.precision(17);
    os << v;
    return os.str();
}
inline std::string gnum(long double v)
{
    char b[64];
    snprintf(b, sizeof b, "%.6Lg", v);
    return b;
}
// hex float, exact round trip for replay descriptions
inline std::string hexf(double v)
{
    char b[64];
    snprintf(b, sizeof b, "%a", v);
    return b;
}

// ---------------------------------------------------------------- hashing (FNV-1a 64)
struct Fnv
{
    uint64_t h = 1469598103934665603ULL;
    void bytes(const void* p, size_t n)
    {
        const unsigned char* c = static_cast<const unsigned char*>(p);
        for (size_t i = 0; i < n; i++)
        {
            h ^= c[i];
            h *= 1099511628211ULL;
        }
    }
    template <typename T>
    void pod(const T& v)
    {
        bytes(&v, sizeof(T));
    }
    // long double has 6 padding bytes on x86-64: hash the 10 value bytes only
    void pod(const long double& v) { bytes(&v, 10); }
    void str(const std::string& s)
    {
        bytes(s.data(), s.size());
        unsigned char z = 0;
        bytes(&z, 1);
    }
};

// ---------------------------------------------------------------- per-worker accumulator
struct Violation
{
    std::string key;     // content-based, stable identification of the failing case (+ clause)
    std::string replay;  // "<section>#<idx>" accepted by --only
    std::string detail;  // numbers observed
};

struct Local
{
    uint64_t evaluations = 0;          // library executions (cases run)
    uint64_t transitions = 0;          // E1: API operations executed on the real code
    uint64_t traces = 0;               // E1: histories executed from a fresh object
    std::map<std::string, uint64_t> counters;
    std::map<std::string, long double> max_ratio;  // per clause: max err/bound observed
    std::vector<Violation> violations;
    std::vector<std::string> samples;  // JSON values
    std::set<uint64_t> distinct;       // hashes of distinct non-trivial cases / outcomes
    std::set<uint64_t> states;         // E1: canonical state hashes

    void count(const std::string& k, uint64_t by = 1) { counters[k] += by; }
    void ratio(const std::string& clause, long double r)
    {
        if (!(r == r))
            r = INFINITY;
        auto it = max_ratio.find(clause);
        if (it == max_ratio.end())
            max_ratio[clause] = r;
        else if (r > it->second)
            it->second = r;
    }
    void violate(const std::string& key, const std::string& replay, const std::string& detail)
    {
        if (violations.size() < 200000)
            violations.push_back({key, replay, detail});
        count("violations_total");
    }
    void sample(const std::string& json, size_t cap = 6)
    {
        if (samples.size() < cap)
            samples.push_back(json);
    }
    void merge(Local& o)
    {
        evaluations += o.evaluations;
        transitions += o.transitions;
        traces += o.traces;
        for (auto& kv : o.counters) counters[kv.first] += kv.second;
        for (auto& kv : o.max_ratio) ratio(kv.first, kv.second);
        for (auto& v : o.violations)
            if (violations.size() < 200000)
                violations.push_back(v);
        for (auto& s : o.samples)
            if (samples.size() < 12)
                samples.push_back(s);
        distinct.insert(o.distinct.begin(), o.distinct.end());
        states.insert(o.states.begin(), o.states.end());
    }
};

// ---------------------------------------------------------------- run configuration
struct Config
{
    std::string tier = "quick";
    std::string out;
    std::string only;  // "<section>#<idx>": run just that case (replay)
    double deadline_s = 0;
    int threads = 16;
    long seed = 0;
    bool quick() const { return tier == "quick"; }
    bool thorough() const { return tier == "thorough"; }
};

inline Config parse_args(int argc, char** argv, double dl_quick = 240, double dl_thorough = 1500)
{
    Config c;
    for (int i = 1; i < argc; i++)
    {
        std::string a = argv[i];
        auto next = [&]() -> std::string { return (i + 1 < argc) ? argv[++i] : ""; };
        if (a == "--tier") c.tier = next();
        else if (a == "--out") c.out = next();
        else if (a == "--only") c.only = next();
        else if (a == "--deadline") c.deadline_s = atof(next().c_str());
        else if (a == "--threads") c.threads = atoi(next().c_str());
    }
    if (const char* s = getenv("VERIF_SEED")) c.seed = atol(s);
    if (const char* s = getenv("VERIF_THREADS")) c.threads = atoi(s);
    if (c.deadline_s <= 0)
    {
        if (const char* s = getenv("VERIF_DEADLINE_S")) c.deadline_s = atof(s);
    }
    if (c.deadline_s <= 0) c.deadline_s = c.quick() ? dl_quick : dl_thorough;
    if (c.threads < 1) c.threads = 1;
    return c;
}

// ---------------------------------------------------------------- the runner
struct Section
{
    std::string name;
    uint64_t n;
    std::function<void(uint64_t, Local&)> fn;
};

struct Runner
{
    Config cfg;
    std::string property;
    Local total;
    double t0 = now_s();
    bool exhaustive = true;
    std::vector<std::string> incomplete;  // "<section>: done/total"
    std::vector<std::string> section_log;

    Runner(const std::string& prop, const Config& c) : cfg(c), property(prop) {}

    double elapsed() const { return now_s() - t0; }
    bool deadline_hit() const { return elapsed() > cfg.deadline_s; }

    // Run one section exhaustively (or only the --only index).
    void run(const std::string& name, uint64_t n, const std::function<void(uint64_t, Local&)>& fn)
    {
        double ts = now_s();
        if (!cfg.only.empty())
        {
            auto pos = cfg.only.find('#');
            std::string sec = cfg.only.substr(0, pos);
            if (sec != name)
                return;
            uint64_t idx = strtoull(cfg.only.c_str() + pos + 1, nullptr, 10);
            if (idx < n)
                fn(idx, total);
            return;
        }
        if (deadline_hit())
        {
            exhaustive = false;
            incomplete.push_back(name + ": 0/" + num(n));
            return;
        }
        int T = cfg.threads;
        if (uint64_t(T) > n) T = n ? int(n) : 1;
        std::vector<Local> locals(T);
        std::vector<uint64_t> done(T, 0);
        std::atomic<bool> stop{false};
        std::vector<std::thread> th;
        // the seed only rotates the order in which indices are visited, never the set
        uint64_t rot = n ? (uint64_t(cfg.seed) % n) : 0;
        for (int w = 0; w < T; w++)
        {
            th.emplace_back([&, w]() {
                Local& L = locals[w];
                uint64_t k = 0;
                for (uint64_t i = w; i < n; i += T, k++)
                {
                    {
                        if (stop.load(std::memory_order_relaxed))
                            break;
                        if (now_s() - t0 > cfg.deadline_s)
                        {
                            stop.store(true);
                            break;
                        }
                    }
                    uint64_t idx = i + rot;
                    if (idx >= n) idx -= n;
                    fn(idx, L);
                    done[w]++;
                }
            });
        }
        for (auto& t : th) t.join();
        uint64_t d = 0;
        for (int w = 0; w < T; w++)
        {
            d += done[w];
            total.merge(locals[w]);
        }
        if (d < n)
        {
            exhaustive = false;
            incomplete.push_back(name + ": " + num(d) + "/" + num(n));
        }
        char b[256];
        snprintf(b, sizeof b, "%s: %" PRIu64 "/%" PRIu64 " in %.1fs", name.c_str(), d, n, now_s() - ts);
        section_log.push_back(b);
        fprintf(stderr, "[%s] %s\n", property.c_str(), b);
    }

    // Write the result file consumed by ./check.  `rule` describes enumeration + non-triviality.
    int finish(const std::string& rule, const std::vector<std::string>& assumptions,
               const std::string& extra_json = "")
    {
        std::ostringstream o;
        o << "{\n";
        o << " \"property\": " << jstr(property) << ",\n";
        o << " \"tier\": " << jstr(cfg.tier) << ",\n";
        o << " \"seed\": " << cfg.seed << ",\n";
        o << " \"only\": " << jstr(cfg.only) << ",\n";
        o << " \"evaluations\": " << total.evaluations << ",\n";
        o << " \"transitions\": " << total.transitions << ",\n";
        o << " \"traces\": " << total.traces << ",\n";
        o << " \"states\": " << total.states.size() << ",\n";
        o << " \"distinct_nontrivial\": " << total.distinct.size() << ",\n";
        o << " \"exhaustive\": " << (exhaustive ? "true" : "false") << ",\n";
        o << " \"rule\": " << jstr(rule) << ",\n";
        o << " \"incomplete\": [";
        for (size_t i = 0; i < incomplete.size(); i++) o << (i ? "," : "") << jstr(incomplete[i]);
        o << "],\n \"sections\": [";
        for (size_t i = 0; i < section_log.size(); i++) o << (i ? "," : "") << jstr(section_log[i]);
        o << "],\n \"assumptions\": [";
        for (size_t i = 0; i < assumptions.size(); i++) o << (i ? "," : "") << jstr(assumptions[i]);
        o << "],\n \"counters\": {";
        {
            bool f = true;
            for (auto& kv : total.counters)
            {
                o << (f ? "" : ",") << "\n  " << jstr(kv.first) << ": " << kv.second;
                f = false;
            }
        }
        o << "\n },\n \"max_ratio\": {";
        {
            bool f = true;
            for (auto& kv : total.max_ratio)
            {
                long double r = kv.second;
                o << (f ? "" : ",") << "\n  " << jstr(kv.first) << ": ";
                if (std::isfinite((double) r)) o << gnum(r);
                else o << "\"inf\"";
                f = false;
            }
        }
        o << "\n },\n \"samples\": [";
        for (size_t i = 0; i < total.samples.size(); i++) o << (i ? ",\n  " : "\n  ") << total.samples[i];
        o << "\n ],\n";
        if (!extra_json.empty()) o << extra_json << ",\n";
        o << " \"wall_s\": " << elapsed() << ",\n";
        o << " \"violations\": [";
        for (size_t i = 0; i < total.violations.size(); i++)
        {
            auto& v = total.violations[i];
            o << (i ? ",\n  " : "\n  ") << "{\"key\": " << jstr(v.key) << ", \"replay\": " << jstr(v.replay)
              << ", \"detail\": " << jstr(v.detail) << "}";
        }
        o << "\n ]\n}\n";
        if (cfg.out.empty())
            fputs(o.str().c_str(), stdout);
        else
        {
            FILE* f = fopen(cfg.out.c_str(), "w");
            if (!f)
            {
                perror("open out");
                return 2;
            }
            fputs(o.str().c_str(), f);
            fclose(f);
        }
        fprintf(stderr, "[%s] tier=%s evaluations=%" PRIu64 " violations=%zu exhaustive=%d wall=%.1fs\n",
                property.c_str(), cfg.tier.c_str(), total.evaluations, total.violations.size(), int(exhaustive), elapsed());
        return 0;
    }
};

// mixed-radix decode: digits[i] in [0, radix[i])
inline void decode(uint64_t idx, const std::vector<int>& radix, std::vector<int>& digits)
{
    digits.resize(radix.size());
    for (size_t i = 0; i < radix.size(); i++)
    {
        digits[i] = int(idx % uint64_t(radix[i]));
        idx /= uint64_t(radix[i]);
    }
}
inline uint64_t ipow(uint64_t b, unsigned e)
{
    uint64_t r = 1;
    while (e--) r *= b;
    return r;
}

}  // namespace vf

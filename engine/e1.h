// E1 - explicit-state search over API histories of real solver objects (DESIGN.md 2.4).
//
// A *subject* is (solver class, operator built from one alphabet matrix, nev, ncv [, shift]).  A *state* is the history
// that reaches it; to take a transition the history is replayed on a freshly constructed object (solver objects hold
// references and cannot be copied) and the new operation is applied to the real code.  States are merged by a
// canonical hash of the solver's private fields (everything that determines future behaviour and observables; the
// fields that hold uninitialised memory and are overwritten before being read are left out).  While replaying a
// prefix the canon is compared with the one recorded for that state: a difference is nondeterminism of the harness
// or of the code under test and is reported, never ignored.
#pragma once
#include "engine/common.h"
#include "engine/oracle.h"
#include <Eigen/Sparse>
#include <Spectra/Util/SelectionRule.h>
#include <Spectra/Util/CompInfo.h>
#include <memory>

#if defined(VF_ASAN)
#include <sanitizer/asan_interface.h>
#endif

namespace vf {
using Spectra::CompInfo;
using Spectra::SortRule;

inline const char* rule_name(SortRule r)
{
    switch (r)
    {
        case SortRule::LargestMagn: return "LM";
        case SortRule::LargestReal: return "LR";
        case SortRule::LargestImag: return "LI";
        case SortRule::LargestAlge: return "LA";
        case SortRule::SmallestMagn: return "SM";
        case SortRule::SmallestReal: return "SR";
        case SortRule::SmallestImag: return "SI";
        case SortRule::SmallestAlge: return "SA";
        case SortRule::BothEnds: return "BE";
    }
    return "??";
}
inline const char* info_name(int i)
{
    switch (CompInfo(i))
    {
        case CompInfo::Successful: return "Successful";
        case CompInfo::NotComputed: return "NotComputed";
        case CompInfo::NotConverging: return "NotConverging";
        case CompInfo::NumericalIssue: return "NumericalIssue";
    }
    return "?";
}

enum { OP_INIT0, OP_INITV, OP_COMPUTE, OP_SHARE };
struct OpDesc
{
    int type = OP_INIT0;
    int vidx = 0;  // OP_INITV / OP_SHARE: index into Subject::starts
    SortRule sel = SortRule::LargestMagn;
    long maxit = 1000;
    LD tol = 1e-10L;
    SortRule sorting = SortRule::LargestAlge;
    std::string name() const
    {
        if (type == OP_INIT0) return "I0";
        if (type == OP_INITV) return "Iv" + num(vidx);
        std::string s = (type == OP_SHARE ? "S2v" + num(vidx) + "(" : "C(");
        return s + rule_name(sel) + "," + num(maxit) + "," + gnum(tol) + "," + rule_name(sorting) + ")";
    }
};
inline OpDesc op_init0() { return OpDesc(); }
inline OpDesc op_initv(int j)
{
    OpDesc o;
    o.type = OP_INITV;
    o.vidx = j;
    return o;
}
inline OpDesc op_compute(SortRule sel, long maxit, LD tol, SortRule sorting)
{
    OpDesc o;
    o.type = OP_COMPUTE;
    o.sel = sel;
    o.maxit = maxit;
    o.tol = tol;
    o.sorting = sorting;
    return o;
}
inline OpDesc op_share(int j, SortRule sel, long maxit, LD tol, SortRule sorting)
{
    OpDesc o = op_compute(sel, maxit, tol, sorting);
    o.type = OP_SHARE;
    o.vidx = j;
    return o;
}
inline std::string hist_name(const std::vector<OpDesc>& ops, const std::vector<int>& h)
{
    std::string s;
    for (size_t i = 0; i < h.size(); i++) s += (i ? ";" : "") + ops[h[i]].name();
    return s;
}

struct Subject
{
    std::string key;  // kind + matrix + configuration; stable, content based
    MatCL A;          // the user's matrix, exact
    int n = 0, nev = 0, ncv = 0;
    bool hermitian = true;
    int shift_mode = 0;  // 0 plain, 1 real shift-and-invert, 2 complex shift
    CL sigma = 0;
    LD eps = 0;    // machine epsilon of the solver's scalar type
    VecCL ref;     // reference spectrum of A (long double dense solver)
    LD normA = 0;  // ||A||_2 (Hermitian: max |lambda|) or Frobenius norm
    LD norm_shifted = 0, cond_shifted = 1, inv_norm_shifted = 1;  // ||A - sigma I||, its condition number, ||(A - sigma I)^{-1}||
    LD normM = 0;                                                 // complex shift: ||(A - sigma)(A - conj sigma)||
    std::vector<VecCL> starts;                            // start vectors (Iv_j alphabet)
    int extra_calls_per_compute = 0;                      // operator applications outside the counted iteration
    bool pencil = false;                                  // generalized problem: A alone does not define the eigenpairs (no Rayleigh-quotient pairing test)
};

// Everything a caller can observe from one solver object after one operation
struct Obs
{
    bool threw = false;
    std::string extype, exwhat;
    long ret = -1;  // compute() return value when the op was a compute that returned
    int info = -1;
    long nops = 0, niter = 0;
    VecCL evals;
    MatCL evecs;
    uint64_t bits = 0;    // hash of the raw bits of eigenvalues() and eigenvectors()
    std::string acc_err;  // accessor self-consistency failures (eigenvectors(m) vs eigenvectors(), idempotence)
    long calls = 0;       // harness-side count of operator applications since the last init
    long bad_calls = 0;   // operator applications with invalid / overlapping / non-finite arguments
    std::string bad_msg;
    bool documented_exception() const
    {
        return extype == "invalid_argument" || extype == "runtime_error" || extype == "logic_error";
    }
};

// ---------------------------------------------------------------- counting / validating operator wrapper
template <class Base>
struct Counted : Base
{
    using Scalar = typename Base::Scalar;
    mutable long calls = 0, bad = 0;
    mutable std::string bad_msg;
    mutable long throw_at = -1;  // E3: throw at this (1-based) application since arming
    mutable long fault_id = 0;
    template <class... A>
    explicit Counted(A&&... a) : Base(std::forward<A>(a)...) {}
    void validate(const Scalar* x, Scalar* y) const
    {
        const long n = this->rows();
        const char* xb = reinterpret_cast<const char*>(x);
        const char* yb = reinterpret_cast<const char*>(y);
        const long bytes = n * long(sizeof(Scalar));
        if (!(xb + bytes <= yb || yb + bytes <= xb))
        {
            bad++;
            bad_msg = "input and output ranges overlap";
        }
        for (long i = 0; i < n; i++)
            if (!std::isfinite((double) std::abs(x[i])))
            {
                bad++;
                bad_msg = "non-finite input vector passed to the operator at application " + num(calls);
                break;
            }
#if defined(VF_ASAN)
        if (__asan_region_is_poisoned(const_cast<Scalar*>(x), bytes) || __asan_region_is_poisoned(y, bytes))
        {
            bad++;
            bad_msg = "operator handed a poisoned (out-of-bounds) buffer";
        }
#endif
    }
    // shift-solve operators: applications made while a shift other than the first installed one is in force (the
    // probe solves of the complex-shift solver's post-processing) are counted separately
    mutable std::vector<long double> home_shift, cur_shift;
    mutable long off_calls = 0;
    template <class... A>
    void set_shift(const A&... a)
    {
        cur_shift = {static_cast<long double>(a)...};
        if (home_shift.empty()) home_shift = cur_shift;
        Base::set_shift(a...);
    }
    void perform_op(const Scalar* x, Scalar* y) const
    {
        if (cur_shift != home_shift) off_calls++;
        else calls++;
        validate(x, y);
        Base::perform_op(x, y);
    }
    void raw_apply(const Scalar* x, Scalar* y) const { Base::perform_op(x, y); }
};

template <typename Scalar>
inline Eigen::Matrix<Scalar, -1, -1> cast_mat(const MatCL& A)
{
    Eigen::Matrix<Scalar, -1, -1> M(A.rows(), A.cols());
    using R = typename Eigen::NumTraits<Scalar>::Real;
    for (Eigen::Index j = 0; j < A.cols(); j++)
        for (Eigen::Index i = 0; i < A.rows(); i++)
        {
            if constexpr (Eigen::NumTraits<Scalar>::IsComplex) M(i, j) = Scalar(R(A(i, j).real()), R(A(i, j).imag()));
            else M(i, j) = Scalar(A(i, j).real());
        }
    return M;
}
template <typename Scalar>
inline Eigen::Matrix<Scalar, -1, 1> cast_vec(const VecCL& v)
{
    return cast_mat<Scalar>(v);
}

template <typename T>
inline void hash_raw(Fnv& f, const T& m)
{
    using S = typename T::Scalar;
    using R = typename Eigen::NumTraits<S>::Real;
    f.pod(uint64_t(m.rows()));
    f.pod(uint64_t(m.cols()));
    for (Eigen::Index j = 0; j < m.cols(); j++)
        for (Eigen::Index i = 0; i < m.rows(); i++)
        {
            if constexpr (Eigen::NumTraits<S>::IsComplex)
            {
                R a = m(i, j).real(), b = m(i, j).imag();
                f.pod(a);
                f.pod(b);
            }
            else
            {
                R a = m(i, j);
                f.pod(a);
            }
        }
}
template <typename A, typename B>
inline bool bit_equal(const A& a, const B& b)
{
    if (a.rows() != b.rows() || a.cols() != b.cols()) return false;
    Fnv f, g;
    hash_raw(f, a);
    hash_raw(g, b);
    return f.h == g.h;
}

// ---------------------------------------------------------------- one live solver object + its operator
// K ("kind") supplies: Scalar, Solver, member `op` (a Counted<...>), K(const Subject&), make(const Subject&) -> unique_ptr<Solver>
template <class K>
struct Inst
{
    using Solver = typename K::Solver;
    using Scalar = typename K::Op::Scalar;
    using Real = typename Eigen::NumTraits<Scalar>::Real;
    using Vec = Eigen::Matrix<Scalar, -1, 1>;
    const Subject& S;
    K k;
    std::unique_ptr<Solver> s;
    long computes_since_init = 0;

    explicit Inst(const Subject& S_) : S(S_), k(S_), s(k.make(S_)) {}

    template <class F>
    static void guarded(Obs& o, F&& f)
    {
        try
        {
            f();
        }
        catch (const EigenAssert& e) { o.threw = true; o.extype = "eigen_assert"; o.exwhat = e.what(); }
        catch (const std::invalid_argument& e) { o.threw = true; o.extype = "invalid_argument"; o.exwhat = e.what(); }
        catch (const std::logic_error& e) { o.threw = true; o.extype = "logic_error"; o.exwhat = e.what(); }
        catch (const std::runtime_error& e) { o.threw = true; o.extype = "runtime_error"; o.exwhat = e.what(); }
        catch (const std::bad_alloc& e) { o.threw = true; o.extype = "bad_alloc"; o.exwhat = e.what(); }
        catch (const std::exception& e) { o.threw = true; o.extype = "other_std_exception"; o.exwhat = e.what(); }
    }

    static void run_on(Solver& sv, K& kk, const Subject& S, const OpDesc& op, Obs& o, long* computes)
    {
        guarded(o, [&]() {
            switch (op.type)
            {
                case OP_INIT0:
                    kk.op.calls = 0;
                    if (computes) *computes = 0;
                    sv.init();
                    break;
                case OP_INITV:
                {
                    Vec v = cast_vec<Scalar>(S.starts[op.vidx]);
                    kk.op.calls = 0;
                    if (computes) *computes = 0;
                    sv.init(v.data());
                    break;
                }
                default:
                    o.ret = sv.compute(op.sel, op.maxit, Real(op.tol), op.sorting);
                    if (computes) (*computes)++;
            }
        });
    }

    Obs apply(const OpDesc& op)
    {
        Obs o;
        if (op.type == OP_SHARE)
        {
            // a second solver sharing the same operator object runs init(v); compute(args)
            const long saved = k.op.calls;
            std::unique_ptr<Solver> s2;
            guarded(o, [&]() { s2 = k.make(S); });
            if (s2)
            {
                OpDesc iv = op_initv(op.vidx);
                run_on(*s2, k, S, iv, o, nullptr);
                if (!o.threw) run_on(*s2, k, S, op, o, nullptr);
                observe_into(*s2, o, o.threw ? 0 : 1);
            }
            k.op.calls = saved;
            return o;
        }
        run_on(*s, k, S, op, o, &computes_since_init);
        observe_into(*s, o, computes_since_init);
        return o;
    }
    Obs observe()
    {
        Obs o;
        observe_into(*s, o, computes_since_init);
        return o;
    }

    // accessor sweep: every accessor, every nvec in 0..nev+1, twice (idempotence)
    void observe_into(const Solver& sv, Obs& o, long computes)
    {
        Obs dummy;
        guarded(dummy, [&]() {
            auto ev = sv.eigenvalues();
            auto X = sv.eigenvectors();
            o.info = int(sv.info());
            o.nops = sv.num_operations();
            o.niter = sv.num_iterations();
            o.evals = ev.template cast<CL>();
            o.evecs = X.template cast<CL>();
            Fnv f;
            hash_raw(f, ev);
            hash_raw(f, X);
            o.bits = f.h;
            auto ev2 = sv.eigenvalues();
            auto X2 = sv.eigenvectors();
            if (!bit_equal(ev, ev2) || !bit_equal(X, X2)) o.acc_err += "accessors not idempotent; ";
            if (X.rows() != S.n) o.acc_err += "eigenvectors().rows()=" + num(X.rows()) + " != n; ";
            for (long m = 0; m <= S.nev + 1; m++)
            {
                auto Xm = sv.eigenvectors(m);
                const long want = std::min<long>(m, X.cols());
                if (Xm.cols() != want || Xm.rows() != X.rows())
                    o.acc_err += "eigenvectors(" + num(m) + ") is " + num(Xm.rows()) + "x" + num(Xm.cols()) + ", expected " + num(X.rows()) + "x" + num(want) + "; ";
                else if (!bit_equal(Xm, X.leftCols(want).eval()))
                    o.acc_err += "eigenvectors(" + num(m) + ") differs from the first columns of eigenvectors(); ";
            }
        });
        if (dummy.threw) o.acc_err += "accessor threw " + dummy.extype + ": " + dummy.exwhat + "; ";
        o.calls = k.op.calls - long(S.extra_calls_per_compute) * computes;
        o.bad_calls = k.op.bad;
        o.bad_msg = k.op.bad_msg;
    }

    // canonical hash of the solver state (private fields via -fno-access-control)
    uint64_t canon(bool with_info = true) const
    {
        Fnv f;
        const auto& fac = s->m_fac;
        const Eigen::Index kdim = fac.m_k;
        f.pod(uint64_t(kdim));
        if (kdim > 0)
        {
            hash_raw(f, fac.m_fac_V.leftCols(kdim).eval());
            hash_raw(f, fac.m_fac_H);
            hash_raw(f, fac.m_fac_f);
            Real b = fac.m_beta;
            f.pod(b);
        }
        const Eigen::Index nv = std::min<Eigen::Index>(s->m_ritz_val.size(), s->m_nev);
        hash_raw(f, s->m_ritz_val.head(nv).eval());
        hash_raw(f, s->m_ritz_vec);
        hash_raw(f, s->m_ritz_est);
        f.pod(uint64_t(s->m_ritz_conv.size()));
        for (Eigen::Index i = 0; i < s->m_ritz_conv.size(); i++) f.pod(char(s->m_ritz_conv[i] ? 1 : 0));
        f.pod(uint64_t(s->m_nmatop));
        f.pod(uint64_t(s->m_niter));
        if (with_info) f.pod(int(s->m_info));
        f.pod(uint64_t(k.probe()));
        return f.h;
    }
};

// ---------------------------------------------------------------- the explorer
template <class K>
struct Explorer
{
    using I = Inst<K>;
    const Subject& S;
    const std::vector<OpDesc>& ops;
    int depth;
    Local& L;
    // oracle(history, observation before the last op, observation after it, live object)
    std::function<void(const std::vector<int>&, const Obs&, const Obs&, I&)> oracle;
    std::function<void(const std::string& clause, const std::string& detail)> nondet;

    struct Node
    {
        std::vector<int> hist;
        uint64_t canon;
    };
    // C06: after the merged search, every distinct reachable state h is followed by every (init, compute) pair of the
    // alphabet WITHOUT merging, so that hidden state which the canonical hash cannot see (a new member that init()
    // does not reset, a static) still shows up as a different outcome of the observed init(v); compute(args) pair
    bool tail_pairs = false;
    void run()
    {
        std::set<uint64_t> seen;
        std::vector<Node> frontier, next, all_nodes;
        {
            I fresh(S);
            L.traces++;
            uint64_t c = fresh.canon();
            seen.insert(c);
            frontier.push_back({{}, c});
            all_nodes.push_back({{}, c});
            Obs o = fresh.observe();
            oracle({}, o, o, fresh);
        }
        for (int d = 1; d <= depth; d++)
        {
            next.clear();
            for (const Node& nd : frontier)
                for (int oi = 0; oi < int(ops.size()); oi++)
                {
                    I inst(S);
                    L.traces++;
                    for (int h : nd.hist)
                    {
                        inst.apply(ops[h]);
                        L.transitions++;
                    }
                    if (inst.canon() != nd.canon)
                    {
                        L.count("replay_divergence");
                        if (nondet) nondet("replay-divergence", "history " + hist_name(ops, nd.hist) + " reached a different state when replayed");
                    }
                    Obs before = inst.observe();
                    Obs after = inst.apply(ops[oi]);
                    L.transitions++;
                    std::vector<int> h2 = nd.hist;
                    h2.push_back(oi);
                    oracle(h2, before, after, inst);
                    if (d == depth) L.sample("{\"subject\": " + jstr(S.key) + ", \"history\": " + jstr(hist_name(ops, h2)) + ", \"returned_pairs\": " + num(long(after.evals.size())) + ", \"info\": " + jstr(info_name(after.info)) + "}", 4);
                    uint64_t c = inst.canon();
                    if (seen.insert(c).second)
                    {
                        next.push_back({h2, c});
                        all_nodes.push_back({h2, c});
                    }
                }
            frontier.swap(next);
            L.count("frontier_depth" + num(d), frontier.size());
        }
        if (tail_pairs)
            for (const Node& nd : all_nodes)
                for (int ii = 0; ii < int(ops.size()); ii++)
                {
                    if (ops[ii].type != OP_INIT0 && ops[ii].type != OP_INITV) continue;
                    for (int ci = 0; ci < int(ops.size()); ci++)
                    {
                        if (ops[ci].type != OP_COMPUTE) continue;
                        I inst(S);
                        L.traces++;
                        for (int h : nd.hist)
                        {
                            inst.apply(ops[h]);
                            L.transitions++;
                        }
                        std::vector<int> h2 = nd.hist;
                        Obs before = inst.observe();
                        Obs a = inst.apply(ops[ii]);
                        h2.push_back(ii);
                        oracle(h2, before, a, inst);
                        Obs b = inst.apply(ops[ci]);
                        h2.push_back(ci);
                        oracle(h2, a, b, inst);
                        L.transitions += 2;
                        L.count("tail_pairs_run");
                    }
                }
        L.count("states_by_construction", seen.size());
    }
};

// ---------------------------------------------------------------- shared oracles
struct Reporter
{
    Local& L;
    std::string base, replay;
    void v(const std::string& clause, const std::string& detail) { L.violate(base + "|" + clause, replay, detail); }
};

// C01 / C02: every pair handed back is an eigenpair of A to the requested accuracy, unit norm, (Hermitian: orthonormal)
inline void oracle_pairs(const Subject& S, const OpDesc& op, const Obs& o, Reporter& R, bool check_distinct)
{
    Local& L = R.L;
    const long k = o.evals.size();
    if (o.evecs.cols() != k || (k > 0 && o.evecs.rows() != S.n)) return;  // shape mismatch is C05's business
    if (k == 0) return;
    const LD u = S.eps, eps23 = std::pow(u, LD(2) / 3);
    L.count("pairs_checked", k);
    for (long i = 0; i < k; i++)
    {
        const CL th = o.evals[i];
        const VecCL x = o.evecs.col(i);
        const LD nx = x.norm();
        if (!std::isfinite((double) nx) || !std::isfinite((double) std::abs(th)))
        {
            R.v("nonfinite", "pair " + num(i) + " is not finite");
            continue;
        }
        LD nb = 5e3L * u;  // the diagonal of the Gram matrix at the 1e4*eps orthonormality allowance
        L.ratio("unit_norm", std::abs(nx - 1) / nb);
        if (!(std::abs(nx - 1) <= nb)) R.v("unit-norm", "pair " + num(i) + " ||x||-1=" + gnum(nx - 1));
        const LD r = (S.A * x - th * x).norm();
        LD bound;
        if (S.shift_mode == 0)
            bound = op.tol * std::max(eps23, std::abs(th)) + 1e3L * u * S.normA;
        else if (S.shift_mode == 1)
        {
            // nu = 1/(theta - sigma) is the iterated value; A x - theta x = -(A - sigma I) r_nu / nu
            const LD d = std::abs(th - S.sigma);
            const LD anu = d > 0 ? 1 / d : std::numeric_limits<LD>::infinity();
            const LD kap = std::max<LD>(1, d * S.inv_norm_shifted);
            bound = op.tol * std::max(eps23, anu) / anu * S.norm_shifted + 1e3L * u * kap * S.cond_shifted * S.norm_shifted;
        }
        else
        {
            // complex shift: Op = Re (A - sigma)^{-1}, nu(lambda) = ((1/(lambda-sigma)) + 1/(lambda-conj sigma))/2 and
            // (A - sigma)(A - conj sigma)(Op x - nu x) = -nu (A - theta)(A - other) x, other = 2 Re sigma + 1/nu - theta
            const CL nu = (CL(1) / (th - S.sigma) + CL(1) / (th - std::conj(S.sigma))) / CL(2);
            const LD anu = std::abs(nu);
            const CL other = CL(2 * S.sigma.real()) + CL(1) / nu - th;
            const LD gap = std::abs(th - other);
            const LD r_other = (S.A * x - other * x).norm();
            if (op.tol <= 1e-6L && gap > 1e-6L * (S.normA + std::abs(S.sigma)))
            {
                L.count("complex_shift_root_choice_checked");
                if (r_other < 1e-3L * gap && r > 0.5L * gap)
                    R.v("wrong-root", "pair " + num(i) + ": reported (" + gnum(th.real()) + "," + gnum(th.imag()) + ") has residual " + gnum(r) + " while the other root of the back-transformation (" + gnum(other.real()) + "," + gnum(other.imag()) + ") has residual " + gnum(r_other));
            }
            if (gap <= 1e-2L * (S.normA + std::abs(S.sigma)))
            {
                // (near-)degenerate back-transformation: both roots coincide, nu'(lambda) = 0 and the operator's eigenspace
                // can be larger than A's; outside what a residual bound can state - finiteness and unit norm only
                L.count("complex_shift_degenerate_root_skipped");
                continue;
            }
            MatCL Rm = S.A - other * MatCL::Identity(S.n, S.n);
            Eigen::FullPivLU<MatCL> lu(Rm);
            LD resolv = std::numeric_limits<LD>::infinity();
            if (lu.isInvertible()) resolv = fro(lu.inverse());
            bound = S.normM * resolv * (op.tol * std::max(eps23, anu) / anu + 1e3L * u * S.cond_shifted * S.inv_norm_shifted / anu) + 1e3L * u * S.normA;
            if (!(bound < 1e-3L * (S.normA + std::abs(S.sigma)))) L.count("complex_shift_weak_bound");
        }
        L.ratio("residual", r / bound);
        if (!(r <= bound))
            R.v("residual", "pair " + num(i) + " theta=(" + gnum(th.real()) + "," + gnum(th.imag()) + ") ||Ax-theta x||=" + gnum(r) + " bound=" + gnum(bound) + " info=" + info_name(o.info));
    }
    if (S.hermitian)
    {
        MatCL G = o.evecs.adjoint() * o.evecs - MatCL::Identity(k, k);
        const LD g = maxabs(G), gb = 1e4L * u;
        L.ratio("orthonormal", g / gb);
        if (!(g <= gb)) R.v("orthonormal", "||X'X-I||_max=" + gnum(g) + " bound=" + gnum(gb));
    }
    else if (check_distinct && op.tol <= 1e-6L)  // with a coarse tolerance two Ritz pairs may legitimately approximate one eigenvalue
    {
        // distinct returned pairs are distinct eigenpairs: a SIMPLE eigenvalue of A (well separated from the rest of the
        // reference spectrum) must not be handed back twice with the same vector.  (For multiple / defective eigenvalues
        // parallel vectors are what the projected eigenproblem delivers and the property does not exclude them;
        // an eigenvalue overwritten by a copy of its neighbour fails the residual test of the neighbour's vector.)
        for (long i = 0; i < k; i++)
            for (long j = i + 1; j < k; j++)
                if (std::abs(o.evals[i] - o.evals[j]) <= 1e3L * u * S.normA)
                {
                    int close = 0;
                    for (int q = 0; q < S.ref.size(); q++)
                        if (std::abs(S.ref[q] - o.evals[i]) <= 1e-3L * std::max<LD>(S.normA, 1e-300L)) close++;
                    L.count("equal_eigenvalue_pairs");
                    if (close != 1) continue;
                    const VecCL xi = o.evecs.col(i), xj = o.evecs.col(j);
                    const LD c = std::abs(xi.dot(xj)) / (xi.norm() * xj.norm());
                    if (c > 1 - 1e-6L) R.v("duplicate-pair", "pairs " + num(i) + "," + num(j) + " both carry the simple eigenvalue (" + gnum(o.evals[i].real()) + "," + gnum(o.evals[i].imag()) + ") with parallel vectors (|cos|=" + gnum(c) + ")");
                }
    }
}

inline LD sort_key(SortRule r, CL v)
{
    switch (r)
    {
        case SortRule::LargestMagn: return -std::abs(v);
        case SortRule::SmallestMagn: return std::abs(v);
        case SortRule::LargestReal:
        case SortRule::LargestAlge: return -v.real();
        case SortRule::SmallestReal:
        case SortRule::SmallestAlge: return v.real();
        case SortRule::LargestImag: return -std::abs(v.imag());
        case SortRule::SmallestImag: return std::abs(v.imag());
        default: return 0;
    }
}

// C05: accessors, counts, ordering and status are mutually consistent (evaluated after a compute() that returned)
inline void oracle_consistency(const Subject& S, const OpDesc& op, const Obs& before, const Obs& o, Reporter& R)
{
    Local& L = R.L;
    const long k = o.evals.size();
    if (!o.acc_err.empty()) R.v("accessors", o.acc_err);
    if (o.ret != k || o.evecs.cols() != k)
        R.v("counts", "compute() returned " + num(o.ret) + ", eigenvalues().size()=" + num(k) + ", eigenvectors().cols()=" + num(o.evecs.cols()));
    if (k > S.nev) R.v("counts", "more than nev pairs returned: " + num(k));
    const int want = (o.ret == S.nev) ? int(CompInfo::Successful) : int(CompInfo::NotConverging);
    if (o.info != want)
        R.v("status", std::string("info()=") + info_name(o.info) + " but compute() returned " + num(o.ret) + " of nev=" + num(S.nev));
    if (k < S.nev) L.count("partial_or_none_converged");
    // ordering by the sorting argument (on the values handed back, i.e. back-transformed in shift modes)
    for (long i = 0; i + 1 < k; i++)
    {
        const LD a = sort_key(op.sorting, o.evals[i]), b = sort_key(op.sorting, o.evals[i + 1]);
        const LD slack = 8 * S.eps * std::max(std::abs(a), std::abs(b));
        if (!(a <= b + slack))
            R.v("ordering", std::string("values not in ") + rule_name(op.sorting) + " order at position " + num(i) + ": " + gnum(o.evals[i].real()) + "," + gnum(o.evals[i].imag()) + " before " + gnum(o.evals[i + 1].real()) + "," + gnum(o.evals[i + 1].imag()));
    }
    // pairing: the Rayleigh quotient of column i is nearest to value i among well separated returned values
    // (complex shift with a coarse tolerance: the root of the back-transformation cannot be identified from an
    //  inaccurate vector - same restriction as the root-choice test of C02)
    if (!S.pencil && o.evecs.cols() == k && o.evecs.rows() == S.n && !(S.shift_mode == 2 && op.tol > 1e-6L))
        for (long i = 0; i < k; i++)
        {
            const VecCL x = o.evecs.col(i);
            const LD xx = x.squaredNorm();
            if (!(xx > 0) || !std::isfinite((double) xx)) continue;
            const CL rho = x.dot(S.A * x) / xx;
            const LD resid = (S.A * x - rho * x).norm() / std::sqrt(xx);
            for (long j = 0; j < k; j++)
            {
                if (j == i) continue;
                const LD sep = std::abs(o.evals[i] - o.evals[j]);
                if (sep <= 100 * resid + 1e3L * S.eps * (S.normA + std::abs(S.sigma) + (S.shift_mode ? S.norm_shifted * S.cond_shifted : LD(0))) +
                        10 * op.tol * (S.normA + std::abs(S.sigma)) * (S.shift_mode ? std::max<LD>(1, S.cond_shifted) : LD(1))) continue;
                // copies of a multiple / clustered / defective eigenvalue cannot be told apart by their vectors
                int close = 0;
                for (int q = 0; q < S.ref.size(); q++)
                    if (std::abs(S.ref[q] - o.evals[i]) <= 1e-2L * (S.normA + std::abs(S.sigma)) + 2 * sep) close++;
                if (close >= 2) continue;
                L.count("pairing_checked");
                if (std::abs(rho - o.evals[i]) > std::abs(rho - o.evals[j]))
                    R.v("pairing", "column " + num(i) + " has Rayleigh quotient " + gnum(rho.real()) + " closer to value " + num(j) + " (" + gnum(o.evals[j].real()) + ") than to its own (" + gnum(o.evals[i].real()) + ")");
            }
        }
    // operation count since init, restart count
    if (o.nops != o.calls)
        R.v("num_operations", "num_operations()=" + num(o.nops) + " but the operator was applied " + num(o.calls) + " times since init()");
    const long restarts = o.niter - before.niter - 1;
    L.count(restarts > 0 ? "computes_with_restart" : "computes_without_restart");
    if (restarts > op.maxit || restarts < 0)
        R.v("maxit", "num_iterations() advanced by " + num(o.niter - before.niter) + " for maxit=" + num(op.maxit));
}


// ---------------------------------------------------------------- per-property oracle dispatch shared by the harnesses
// prop in {"C01","C02","C05","C06","C13"}; one object per subject (holds the fresh-run memo used by C06)
template <class K>
struct PropOracle
{
    using I = Inst<K>;
    std::string prop;
    const Subject& S;
    const std::vector<OpDesc>& ops;
    Local& L;
    std::string replay;
    struct FreshRun
    {
        uint64_t canon_after_init = 0, bits = 0;
        long ret = 0, nops = 0, niter = 0;
        int info = 0;
        bool threw = false;
        std::string extype;
    };
    std::map<std::pair<int, int>, FreshRun> memo;  // (init op index, compute op index) -> fresh-object outcome
    std::map<int, uint64_t> init_canon;            // init op index -> canon(no info) on a fresh object
    uint64_t probe0 = 0;
    bool have_probe0 = false;

    PropOracle(const std::string& p, const Subject& S_, const std::vector<OpDesc>& ops_, Local& L_, const std::string& rp) :
        prop(p), S(S_), ops(ops_), L(L_), replay(rp) {}

    const FreshRun& fresh(int ii, int ci)
    {
        auto key = std::make_pair(ii, ci);
        auto it = memo.find(key);
        if (it != memo.end()) return it->second;
        FreshRun fr;
        I inst(S);
        OpDesc iv = (ops[ci].type == OP_SHARE) ? op_initv(ops[ci].vidx) : ops[ii];
        Obs a = inst.apply(iv);
        fr.canon_after_init = inst.canon(false);
        OpDesc c = ops[ci];
        c.type = OP_COMPUTE;
        Obs b = a.threw ? a : inst.apply(c);
        fr.bits = b.bits; fr.ret = b.ret; fr.nops = b.nops; fr.niter = b.niter; fr.info = b.info;
        fr.threw = b.threw; fr.extype = b.extype;
        return memo[key] = fr;
    }

    void operator()(const std::vector<int>& h, const Obs& before, const Obs& o, I& inst)
    {
        Reporter R{L, S.key + "|" + hist_name(ops, h), replay};
        L.evaluations++;
        if (h.empty())
        {
            probe0 = inst.k.probe();
            have_probe0 = true;
        }
        const OpDesc* op = h.empty() ? nullptr : &ops[h.back()];
        const bool is_compute = op && (op->type == OP_COMPUTE || op->type == OP_SHARE);
        bool any_compute = false;
        for (int x : h) if (ops[x].type == OP_COMPUTE) any_compute = true;
        if (o.threw) L.count("op_threw_" + o.extype);
        {
            Fnv f; f.str(S.key); f.pod(o.bits); f.pod(o.info); f.pod(o.ret);
            if (o.evals.size() > 0) L.distinct.insert(f.h);
        }
        if (prop == "C01" || prop == "C02")
        {
            // pairs handed back in *every* state (after init they must be none, after a compute that threw whatever is exposed)
            OpDesc last = op ? *op : OpDesc();
            if (!is_compute)
            {
                // tolerance of the most recent compute in the history governs the pairs still exposed
                for (int x : h) if (ops[x].type == OP_COMPUTE) last = ops[x];
            }
            oracle_pairs(S, last, o, R, prop == "C02");
            if (is_compute && !o.threw) L.count(o.info == int(CompInfo::Successful) ? "compute_successful" : "compute_notconverging");
        }
        else if (prop == "C05")
        {
            if (!o.acc_err.empty() && !(is_compute && !o.threw)) R.v("accessors", o.acc_err);
            if (is_compute && !o.threw && op->type == OP_COMPUTE) oracle_consistency(S, *op, before, o, R);
            if (is_compute && !o.threw && op->type == OP_SHARE)
            {
                Obs b0;  // the second solver starts from niter = 0
                b0.niter = 0;
                Obs o2 = o;
                o2.calls = o.nops;  // its operation count is checked through the primary object only
                oracle_consistency(S, *op, b0, o2, R);
            }
            if (!any_compute)
            {
                if (o.info != int(CompInfo::NotComputed)) R.v("before-compute", std::string("info()=") + info_name(o.info) + " before any compute()");
                if (o.evals.size() != 0 || o.evecs.cols() != 0) R.v("before-compute", "accessors not empty before any compute()");
            }
            if (op && (op->type == OP_INIT0 || op->type == OP_INITV) && !o.threw && o.nops != o.calls)
                R.v("num_operations", "after init: num_operations()=" + num(o.nops) + " but the operator was applied " + num(o.calls) + " times");
        }
        else if (prop == "C06")
        {
            if (op && (op->type == OP_INIT0 || op->type == OP_INITV) && !o.threw)
            {
                auto it = init_canon.find(h.back());
                if (it == init_canon.end())
                {
                    I f(S);
                    f.apply(*op);
                    it = init_canon.insert({h.back(), f.canon(false)}).first;
                }
                L.count("init_state_compared");
                if (inst.canon(false) != it->second)
                    R.v("init-state", "solver state after '...;" + op->name() + "' differs from a fresh object after the same init");
            }
            if (is_compute && op->type == OP_SHARE)
            {
                const FreshRun& fr = fresh(-1, h.back());
                L.count("shared_operator_runs_compared");
                if (fr.threw != o.threw || fr.bits != o.bits || fr.ret != o.ret || fr.nops != o.nops || fr.niter != o.niter || fr.info != o.info)
                    R.v("second-solver", "a second solver sharing the operator gives a different outcome than a fresh solver: ret " + num(o.ret) + "/" + num(fr.ret) + " nops " + num(o.nops) + "/" + num(fr.nops) + " niter " + num(o.niter) + "/" + num(fr.niter) + (fr.bits != o.bits ? " values/vectors differ in bits" : ""));
            }
            if (is_compute && op->type == OP_COMPUTE && h.size() >= 2)
            {
                const OpDesc& prev = ops[h[h.size() - 2]];
                if (prev.type == OP_INIT0 || prev.type == OP_INITV)
                {
                    const FreshRun& fr = fresh(h[h.size() - 2], h.back());
                    L.count("reruns_compared");
                    if (fr.threw != o.threw || (o.threw && fr.extype != o.extype))
                        R.v("rerun", "init;compute outcome (exception) differs from a fresh object");
                    else if (!o.threw && (fr.bits != o.bits || fr.ret != o.ret || fr.nops != o.nops || fr.niter != o.niter || fr.info != o.info))
                        R.v("rerun", "init;compute after a history differs from a fresh object: ret " + num(o.ret) + "/" + num(fr.ret) + " nops " + num(o.nops) + "/" + num(fr.nops) + " niter " + num(o.niter) + "/" + num(fr.niter) + " info " + info_name(o.info) + "/" + info_name(fr.info) + (fr.bits != o.bits ? " values/vectors differ in bits" : ""));
                }
            }
            if (have_probe0 && op)
            {
                L.count("operator_probes");
                if (inst.k.probe() != probe0)
                    R.v("operator-changed", "the operator object answers a fixed probe vector differently after " + op->name() + " than right after construction");
            }
        }
        else if (prop == "C13")
        {
            if (o.bad_calls) R.v("operator-args", o.bad_msg);
            if (o.threw && !o.documented_exception()) R.v("exception-type", o.extype + ": " + o.exwhat);
            if (!o.acc_err.empty() && o.acc_err.find("threw") != std::string::npos) R.v("accessor-threw", o.acc_err);
            if (is_compute && op->type == OP_COMPUTE)
            {
                const long delta = o.calls - before.calls, cap = 2 + 2 * long(S.ncv) * (op->maxit + 1);
                L.ratio("work_bound", LD(delta) / LD(cap));
                if (delta > cap) R.v("work-bound", "compute() applied the operator " + num(delta) + " times, bound " + num(cap));
                if (!o.threw && o.info != int(CompInfo::Successful) && o.info != int(CompInfo::NotConverging))
                    R.v("status", std::string("info()=") + info_name(o.info) + " after compute() returned");
            }
            if (!all_finite(o.evals) || !all_finite(o.evecs)) R.v("nonfinite", "NaN/Inf in returned eigenvalues/eigenvectors");
        }
    }
};

}  // namespace vf

// E4 - preemption-bounded exploration of interleavings of real std::threads.
//
// Threads are serialised by a baton: exactly one thread runs at a time, all others are blocked on a condition variable,
// so an execution is a deterministic function of the list of choices made at the scheduling points (operator
// applications of the harness operators + the SPECTRA_VERIF_YIELD points inside the library).  At every point the
// enabled threads are listed in canonical order (the running thread first if it is still enabled, then ascending ids);
// choice 0 = "keep going".  Choosing another thread while the running one is still enabled costs one preemption.
// The explorer enumerates ALL choice sequences whose preemption count stays within the bound (iterated 0,1,2,...),
// replaying a prefix and taking choice 0 afterwards, exactly as in iterative context bounding (CHESS).
// Real OS threads are used (not coroutines) so that thread_local library state is per thread, as in production.
#pragma once
#include <condition_variable>
#include <functional>
#include <mutex>
#include <thread>
#include <vector>
#include <stdexcept>
#include <Spectra/Util/VerifHooks.h>

namespace vf {

struct ChoicePoint
{
    int nenabled = 0;          // number of enabled threads at this point
    int chosen = 0;            // index into the canonical enabled list
    bool running_enabled = false;
    int preempt_before = 0;    // preemptions used before this point
};

class Sched
{
public:
    explicit Sched(int nthreads) : T(nthreads), finished(nthreads, false) {}

    // Runs bodies[t](t) under the schedule `prefix` (then default choices). Returns the trace of choice points.
    std::vector<ChoicePoint> run(const std::vector<std::function<void(int)>>& bodies, const std::vector<int>& prefix_)
    {
        prefix = prefix_;
        pos = 0;
        trace.clear();
        preempts = 0;
        std::fill(finished.begin(), finished.end(), false);
        diverged = false;
        current = -1;
        std::vector<std::thread> th;
        for (int t = 0; t < T; t++)
            th.emplace_back([this, t, &bodies]() {
                // install the library-side yield hook for this thread
                Spectra::verif::yield_fn = &Sched::hook;
                Spectra::verif::yield_ctx = this;
                tls_id() = t;
                wait_turn(t);
                try
                {
                    bodies[t](t);
                }
                catch (...)
                {
                    body_threw = true;
                }
                Spectra::verif::yield_fn = nullptr;
                Spectra::verif::yield_ctx = nullptr;
                finish(t);
            });
        {
            // the first choice: which thread starts (no preemption cost)
            std::unique_lock<std::mutex> lk(m);
            int c = decide(-1);
            current = c;
            cv.notify_all();
        }
        for (auto& x : th) x.join();
        return trace;
    }
    // scheduling point reached by the running thread
    void point()
    {
        const int me = tls_id();
        std::unique_lock<std::mutex> lk(m);
        if (current != me) return;  // a thread outside this scheduler instance
        int c = decide(me);
        if (c != me)
        {
            current = c;
            cv.notify_all();
            cv.wait(lk, [&]() { return current == me; });
        }
    }
    bool diverged = false;   // a replayed prefix asked for a choice that does not exist (hard error)
    bool body_threw = false;

private:
    static int& tls_id()
    {
        static thread_local int id = -1;
        return id;
    }
    static void hook(int, void* ctx) { static_cast<Sched*>(ctx)->point(); }
    void wait_turn(int t)
    {
        std::unique_lock<std::mutex> lk(m);
        cv.wait(lk, [&]() { return current == t; });
    }
    void finish(int t)
    {
        std::unique_lock<std::mutex> lk(m);
        finished[t] = true;
        bool any = false;
        for (int i = 0; i < T; i++) any = any || !finished[i];
        if (!any) { current = -2; cv.notify_all(); return; }
        int c = decide(-1);
        current = c;
        cv.notify_all();
    }
    // builds the canonical enabled list and takes the next choice; `me` = running thread or -1 if it is not enabled
    int decide(int me)
    {
        std::vector<int> en;
        if (me >= 0 && !finished[me]) en.push_back(me);
        for (int i = 0; i < T; i++)
            if (!finished[i] && i != me) en.push_back(i);
        ChoicePoint cp;
        cp.nenabled = int(en.size());
        cp.running_enabled = (me >= 0);
        cp.preempt_before = preempts;
        int c = 0;
        if (pos < prefix.size())
        {
            c = prefix[pos];
            if (c < 0 || c >= int(en.size())) { diverged = true; c = 0; }
        }
        pos++;
        cp.chosen = c;
        if (cp.running_enabled && c != 0) preempts++;
        trace.push_back(cp);
        return en[c];
    }

    int T;
    std::mutex m;
    std::condition_variable cv;
    int current = -1;
    std::vector<bool> finished;
    std::vector<int> prefix;
    size_t pos = 0;
    std::vector<ChoicePoint> trace;
    int preempts = 0;
};

// Enumerates every schedule with at most `bound` preemptions. `exec(prefix)` runs one execution and returns its trace
// (it also evaluates the oracle). Work is split over `workers` threads by the alternatives of the root execution.
struct ExploreStats
{
    uint64_t executions = 0, max_points = 0;
    bool diverged = false, truncated = false;
};
inline void explore_subtree(const std::function<std::vector<ChoicePoint>(const std::vector<int>&)>& exec, const std::vector<int>& prefix, int bound, ExploreStats& st,
                            const std::function<bool()>& stop)
{
    if (stop()) { st.truncated = true; return; }
    std::vector<ChoicePoint> tr = exec(prefix);
    st.executions++;
    st.max_points = std::max<uint64_t>(st.max_points, tr.size());
    std::vector<int> choices;
    for (auto& c : tr) choices.push_back(c.chosen);
    for (size_t i = prefix.size(); i < tr.size(); i++)
    {
        const ChoicePoint& p = tr[i];
        int cost = p.preempt_before + (p.running_enabled ? 1 : 0);
        if (cost > bound) continue;
        for (int alt = 1; alt < p.nenabled; alt++)
        {
            std::vector<int> np(choices.begin(), choices.begin() + i);
            np.push_back(alt);
            explore_subtree(exec, np, bound, st, stop);
        }
    }
}

}  // namespace vf

// Harness bodies for C20, shared by the schedule explorer (c20_sched.cpp) and the free-running ThreadSanitizer pass
// (c20_free.cpp).  A body builds one solver for thread slot t, runs init(); compute() on a tiny subject and returns a
// hash of everything the caller can observe.  Operators derive from the LIBRARY wrappers and bracket perform_op /
// operator* with scheduling points, so a shared operator object *is* a library wrapper.
#pragma once
#include "engine/common.h"
#include <Eigen/Sparse>
#include <Spectra/SymEigsSolver.h>
#include <Spectra/SymEigsShiftSolver.h>
#include <Spectra/HermEigsSolver.h>
#include <Spectra/GenEigsSolver.h>
#include <Spectra/GenEigsRealShiftSolver.h>
#include <Spectra/SymGEigsSolver.h>
#include <Spectra/DavidsonSymEigsSolver.h>
#include <Spectra/contrib/PartialSVDSolver.h>
#include <Spectra/MatOp/DenseSymMatProd.h>
#include <Spectra/MatOp/SparseSymMatProd.h>
#include <Spectra/MatOp/DenseHermMatProd.h>
#include <Spectra/MatOp/DenseGenMatProd.h>
#include <Spectra/MatOp/SparseGenMatProd.h>
#include <Spectra/MatOp/DenseSymShiftSolve.h>
#include <Spectra/MatOp/DenseGenRealShiftSolve.h>
#include <Spectra/MatOp/DenseCholesky.h>
#include <memory>

namespace c20 {
using namespace Spectra;
using vf::Fnv;

template <class Base>
struct YOp : Base
{
    using Scalar = typename Base::Scalar;
    using Matrix = Eigen::Matrix<Scalar, -1, -1>;
    template <class... A>
    explicit YOp(A&&... a) : Base(std::forward<A>(a)...) {}
    void perform_op(const Scalar* x, Scalar* y) const
    {
        SPECTRA_VERIF_YIELD(10);
        Base::perform_op(x, y);
        SPECTRA_VERIF_YIELD(11);
    }
    Matrix operator*(const Eigen::Ref<const Matrix>& m) const
    {
        SPECTRA_VERIF_YIELD(12);
        Matrix r = Base::operator*(m);
        SPECTRA_VERIF_YIELD(13);
        return r;
    }
};

template <typename T>
inline void hash_raw(Fnv& f, const T& m)
{
    using S = typename T::Scalar;
    using R = typename Eigen::NumTraits<S>::Real;
    f.pod(uint64_t(m.rows()));
    f.pod(uint64_t(m.cols()));
    for (Eigen::Index j = 0; j < m.cols(); j++)
        for (Eigen::Index i = 0; i < m.rows(); i++)
        {
            if constexpr (Eigen::NumTraits<S>::IsComplex) { R a = m(i, j).real(), b = m(i, j).imag(); f.pod(a); f.pod(b); }
            else { R a = m(i, j); f.pod(a); }
        }
}
// the full private state of the Arnoldi/Lanczos family (whatever the convergence outcome): Ritz values/vectors and the
// Krylov factorization; other solver classes contribute their public results only
template <class Solver>
inline auto hash_state(Fnv& f, Solver& s, int) -> decltype(s.m_fac.m_fac_V, void())
{
    hash_raw(f, s.m_ritz_val.head(s.m_nev).eval());
    hash_raw(f, s.m_ritz_vec);
    hash_raw(f, s.m_fac.m_fac_V);
    hash_raw(f, s.m_fac.m_fac_H);
    hash_raw(f, s.m_fac.m_fac_f);
    f.pod(long(s.m_nmatop));
}
template <class Solver>
inline void hash_state(Fnv&, Solver&, long) {}

template <class Solver>
inline uint64_t observe(Solver& s, long ret)
{
    Fnv f;
    auto ev = s.eigenvalues();
    auto X = s.eigenvectors();
    hash_raw(f, ev);
    hash_raw(f, X);
    f.pod(ret);
    f.pod(int(s.info()));
    f.pod(long(s.num_iterations()));
    hash_state(f, s, 0);
    if (getenv("VF_C20_DEBUG")) fprintf(stderr, "   observe: ret=%ld pairs=%ld info=%d niter=%ld\n", ret, long(ev.size()), int(s.info()), long(s.num_iterations()));
    return f.h;
}

inline Eigen::MatrixXd lap(int n, double scale = 1.0)
{
    Eigen::MatrixXd L = Eigen::MatrixXd::Zero(n, n);
    for (int i = 0; i < n; i++) { L(i, i) = 2 * scale + 0.1 * i; if (i + 1 < n) L(i, i + 1) = L(i + 1, i) = -scale; }
    return L;
}
inline Eigen::MatrixXd band(int n)
{
    Eigen::MatrixXd A = Eigen::MatrixXd::Zero(n, n);
    for (int i = 0; i < n; i++) { A(i, i) = 0.5 * i + 1; if (i + 1 < n) { A(i, i + 1) = 2; A(i + 1, i) = -1; } if (i + 2 < n) A(i, i + 2) = 0.3; }
    return A;
}
inline Eigen::MatrixXd blockdiag7()
{
    Eigen::MatrixXd A = Eigen::MatrixXd::Zero(7, 7);
    A.topLeftCorner(3, 3) = lap(3);
    A.bottomRightCorner(4, 4) = lap(4, 1.5);
    return A;
}

// shared state of one body (operators that several threads use)
struct Shared
{
    Eigen::MatrixXd dense7 = lap(7), gen7 = band(7), blk = blockdiag7();
    Eigen::SparseMatrix<double> sparse7 = lap(7).sparseView(), gsparse7 = band(7).sparseView();
    YOp<DenseSymMatProd<double>> dense_op{dense7};
    YOp<SparseSymMatProd<double>> sparse_op{sparse7};
    YOp<DenseGenMatProd<double>> gen_op{gen7};
    YOp<SparseGenMatProd<double>> gsparse_op{gsparse7};
    Eigen::MatrixXd davm = make_dav();
    YOp<DenseSymMatProd<double>> dav_op{davm};
    static Eigen::MatrixXd make_dav()
    {
        Eigen::MatrixXd d = lap(8);
        for (int i = 0; i < 8; i++) d(i, i) += 3.0 * i;
        return d;
    }
};

struct Body
{
    std::string name;
    bool shared_operator;
    std::function<uint64_t(int, Shared&)> run;  // (thread slot, shared objects) -> observable hash
};

inline std::vector<Body> bodies()
{
    std::vector<Body> b;
    b.push_back({"SymEigsSolver/private", false, [](int t, Shared&) {
                     Eigen::MatrixXd M = lap(6 + t);
                     YOp<DenseSymMatProd<double>> op(M);
                     SymEigsSolver<YOp<DenseSymMatProd<double>>> s(op, 2, 4);
                     s.init();
                     long r = s.compute(SortRule::LargestAlge, 10, 1e-6);
                     return observe(s, r);
                 }});
    b.push_back({"SymEigsSolver/shared DenseSymMatProd", true, [](int t, Shared& sh) {
                     SymEigsSolver<YOp<DenseSymMatProd<double>>> s(sh.dense_op, 2, 4 + (t % 2));
                     s.init();
                     long r = s.compute(t % 2 ? SortRule::SmallestAlge : SortRule::LargestAlge, 10, 1e-6);
                     return observe(s, r);
                 }});
    b.push_back({"SymEigsSolver/shared SparseSymMatProd", true, [](int t, Shared& sh) {
                     SymEigsSolver<YOp<SparseSymMatProd<double>>> s(sh.sparse_op, 2, 4 + (t % 2));
                     s.init();
                     long r = s.compute(t % 2 ? SortRule::SmallestAlge : SortRule::LargestAlge, 10, 1e-6);
                     return observe(s, r);
                 }});
    b.push_back({"SymEigsSolver/breakdown (expand_basis, RNG)", false, [](int t, Shared& sh) {
                     Eigen::MatrixXd M = sh.blk * (1.0 + 0.5 * t);
                     YOp<DenseSymMatProd<double>> op(M);
                     SymEigsSolver<YOp<DenseSymMatProd<double>>> s(op, 2, 5);
                     Eigen::VectorXd v = Eigen::VectorXd::Zero(7);
                     v[0] = 1; v[1] = 0.5 + t;
                     s.init(v.data());
                     long r = s.compute(SortRule::LargestAlge, 10, 1e-6);
                     return observe(s, r);
                 }});
    b.push_back({"GenEigsSolver/private", false, [](int t, Shared&) {
                     Eigen::MatrixXd M = band(6 + t);
                     YOp<DenseGenMatProd<double>> op(M);
                     GenEigsSolver<YOp<DenseGenMatProd<double>>> s(op, 2, 5);
                     s.init();
                     long r = s.compute(SortRule::LargestMagn, 10, 1e-6);
                     return observe(s, r);
                 }});
    b.push_back({"GenEigsSolver/shared DenseGenMatProd", true, [](int t, Shared& sh) {
                     GenEigsSolver<YOp<DenseGenMatProd<double>>> s(sh.gen_op, 2, 5 + (t % 2));
                     s.init();
                     long r = s.compute(t % 2 ? SortRule::SmallestReal : SortRule::LargestMagn, 10, 1e-6);
                     return observe(s, r);
                 }});
    b.push_back({"GenEigsSolver/shared SparseGenMatProd + breakdown", true, [](int t, Shared& sh) {
                     GenEigsSolver<YOp<SparseGenMatProd<double>>> s(sh.gsparse_op, 1 + (t % 2), 5);
                     s.init();
                     long r = s.compute(SortRule::LargestReal, 8, 1e-6);
                     return observe(s, r);
                 }});
    b.push_back({"HermEigsSolver/private", false, [](int t, Shared&) {
                     const int n = 6 + t;
                     Eigen::MatrixXcd M = lap(n).cast<std::complex<double>>();
                     for (int i = 0; i + 1 < n; i++) { M(i, i + 1) += std::complex<double>(0, 0.25); M(i + 1, i) = std::conj(M(i, i + 1)); }
                     YOp<DenseHermMatProd<std::complex<double>>> op(M);
                     HermEigsSolver<YOp<DenseHermMatProd<std::complex<double>>>> s(op, 2, 4);
                     s.init();
                     long r = s.compute(SortRule::LargestAlge, 10, 1e-6);
                     return observe(s, r);
                 }});
    b.push_back({"SymEigsShiftSolver/private", false, [](int t, Shared&) {
                     Eigen::MatrixXd M = lap(6 + t);
                     YOp<DenseSymShiftSolve<double>> op(M);
                     SymEigsShiftSolver<YOp<DenseSymShiftSolve<double>>> s(op, 2, 4, 0.37 + 0.1 * t);
                     s.init();
                     long r = s.compute(SortRule::LargestMagn, 10, 1e-6);
                     return observe(s, r);
                 }});
    b.push_back({"SymGEigsSolver<Cholesky>/private", false, [](int t, Shared&) {
                     const int n = 6 + t;
                     Eigen::MatrixXd A = lap(n), B = Eigen::MatrixXd::Identity(n, n) * 2.0;
                     for (int i = 0; i + 1 < n; i++) B(i, i + 1) = B(i + 1, i) = 0.5;
                     YOp<DenseSymMatProd<double>> op(A);
                     DenseCholesky<double> bop(B);
                     SymGEigsSolver<YOp<DenseSymMatProd<double>>, DenseCholesky<double>, GEigsMode::Cholesky> s(op, bop, 2, 4);
                     s.init();
                     long r = s.compute(SortRule::LargestAlge, 10, 1e-6);
                     return observe(s, r);
                 }});
    b.push_back({"DavidsonSymEigsSolver/shared DenseSymMatProd", true, [](int t, Shared& sh) {
                     DavidsonSymEigsSolver<YOp<DenseSymMatProd<double>>> s(sh.dav_op, 1 + (t % 2));
                     long r = s.compute(t % 2 ? SortRule::SmallestAlge : SortRule::LargestAlge, 20, 1e-8);
                     return observe(s, r);
                 }});
    b.push_back({"PartialSVDSolver/private", false, [](int t, Shared&) {
                     Eigen::MatrixXd W = Eigen::MatrixXd::Zero(7 + t, 5);
                     for (int i = 0; i < 5; i++) { W(i, i) = 1 + i; W(i + 1, i) = 0.5; W(i + 2, i) = 0.25 * (t + 1); }
                     PartialSVDSolver<Eigen::MatrixXd> s(W, 2, 4);
                     long r = s.compute(10, 1e-6);
                     Fnv f;
                     hash_raw(f, s.singular_values());
                     hash_raw(f, s.matrix_U(2));
                     hash_raw(f, s.matrix_V(2));
                     f.pod(r);
                     return f.h;
                 }});
    return b;
}

// positive control: a deliberately racy harness-owned operator (shared scratch vector)
struct RacyOp
{
    using Scalar = double;
    Eigen::MatrixXd M;
    mutable Eigen::VectorXd scratch;
    explicit RacyOp(const Eigen::MatrixXd& m) : M(m), scratch(m.rows()) {}
    Eigen::Index rows() const { return M.rows(); }
    Eigen::Index cols() const { return M.cols(); }
    void perform_op(const double* x, double* y) const
    {
        Eigen::Map<const Eigen::VectorXd> xv(x, M.cols());
        scratch.noalias() = M * xv;
        SPECTRA_VERIF_YIELD(20);
        Eigen::Map<Eigen::VectorXd>(y, M.rows()) = scratch;
    }
};

}  // namespace c20

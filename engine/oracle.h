// Extended-precision reference computations shared by the harnesses.
#pragma once
#include <Eigen/Dense>
#include <complex>
#include <limits>
#include <string>
#include <sstream>

namespace vf {

using LD = long double;
using MatL = Eigen::Matrix<LD, Eigen::Dynamic, Eigen::Dynamic>;
using VecL = Eigen::Matrix<LD, Eigen::Dynamic, 1>;
using CL = std::complex<LD>;
using MatCL = Eigen::Matrix<CL, Eigen::Dynamic, Eigen::Dynamic>;
using VecCL = Eigen::Matrix<CL, Eigen::Dynamic, 1>;

template <typename T>
struct Unit
{
    // unit round-off of the *real* type underlying T
    static LD u() { return LD(std::numeric_limits<typename Eigen::NumTraits<T>::Real>::epsilon()); }
};

template <typename Derived>
inline MatL toL(const Eigen::MatrixBase<Derived>& m)
{
    return m.template cast<LD>();
}
template <typename Derived>
inline MatCL toCL(const Eigen::MatrixBase<Derived>& m)
{
    return m.template cast<CL>();
}

template <typename Derived>
inline LD maxabs(const Eigen::MatrixBase<Derived>& m_)
{
    // evaluate once: coefficient access on a product expression would re-evaluate the product per entry
    const typename Derived::PlainObject m = m_;
    if (m.size() == 0) return 0;
    LD r = 0;
    for (Eigen::Index j = 0; j < m.cols(); j++)
        for (Eigen::Index i = 0; i < m.rows(); i++)
        {
            LD a = std::abs(m(i, j));
            if (!(a == a)) return std::numeric_limits<LD>::infinity();  // NaN poisons
            if (a > r) r = a;
        }
    return r;
}
template <typename Derived>
inline LD fro(const Eigen::MatrixBase<Derived>& m_)
{
    const typename Derived::PlainObject m = m_;
    if (m.size() == 0) return 0;
    LD s = maxabs(m);
    if (s == 0 || !std::isfinite((double) s)) return s;
    LD a = 0;
    for (Eigen::Index j = 0; j < m.cols(); j++)
        for (Eigen::Index i = 0; i < m.rows(); i++)
        {
            LD x = std::abs(m(i, j)) / s;
            a += x * x;
        }
    return s * std::sqrt(a);
}
template <typename Derived>
inline bool all_finite(const Eigen::MatrixBase<Derived>& m_)
{
    const typename Derived::PlainObject m = m_;
    for (Eigen::Index j = 0; j < m.cols(); j++)
        for (Eigen::Index i = 0; i < m.rows(); i++)
            if (!std::isfinite((double) std::abs(m(i, j)))) return false;
    return true;
}

template <typename Derived>
inline std::string mat_str(const Eigen::MatrixBase<Derived>& m_)
{
    const typename Derived::PlainObject m = m_;
    std::ostringstream o;
    o.precision(17);
    o << "[";
    for (Eigen::Index i = 0; i < m.rows(); i++)
    {
        o << (i ? ";" : "");
        for (Eigen::Index j = 0; j < m.cols(); j++) o << (j ? " " : "") << m(i, j);
    }
    o << "]";
    return o.str();
}

}  // namespace vf

// Replacement global operator new/delete with a per-thread count of LIVE allocations made by the code under test.
// Each block carries a 16-byte header saying whether it was allocated while tracking was on, so harness-side
// allocations (strings, result sets) never disturb the count no matter where they are freed.
// (Eigen's matrices use malloc directly and are not seen here; LeakSanitizer covers those at process exit.)
// Include in exactly one translation unit of a binary.
#pragma once
#include <cstdint>
#include <cstdlib>
#include <new>

static thread_local long g_live = 0;
static thread_local bool g_track = false;  // only allocations made by the code under test (rig construction, run, destruction) are tracked
static const uint64_t TAG_TRACKED = 0x7261636b65645f31ULL, TAG_PLAIN = 0x706c61696e5f5f31ULL;
static void* tagged_alloc(std::size_t n)
{
    unsigned char* p = static_cast<unsigned char*>(std::malloc(n + 16));
    if (!p) throw std::bad_alloc();
    *reinterpret_cast<uint64_t*>(p) = g_track ? TAG_TRACKED : TAG_PLAIN;
    if (g_track) g_live++;
    return p + 16;
}
static void tagged_free(void* q) noexcept
{
    if (!q) return;
    unsigned char* p = static_cast<unsigned char*>(q) - 16;
    if (*reinterpret_cast<uint64_t*>(p) == TAG_TRACKED) g_live--;
    std::free(p);
}
void* operator new(std::size_t n) { return tagged_alloc(n); }
void* operator new[](std::size_t n) { return tagged_alloc(n); }
void operator delete(void* p) noexcept { tagged_free(p); }
void operator delete[](void* p) noexcept { tagged_free(p); }
void operator delete(void* p, std::size_t) noexcept { tagged_free(p); }
void operator delete[](void* p, std::size_t) noexcept { tagged_free(p); }
struct Track
{
    bool prev;
    Track() : prev(g_track) { g_track = true; }
    ~Track() { g_track = prev; }
};


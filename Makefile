# Builds harness binaries from /repo's *current working tree* (header-only library).
# Dependency files (-MMD) list every Spectra header a binary includes, so editing a header under
# $(REPO)/include rebuilds exactly the binaries that see it; an untouched tree costs nothing.
REPO   ?= /repo
CXX    ?= g++
EIGEN  ?= /usr/include/eigen3
GUARD  := -DSPECTRA_VERIF
COMMON := -std=c++17 -I$(REPO)/include -I$(EIGEN) -I. $(GUARD) -fno-access-control -MMD -MP -w
PLAIN  := -O2
# -fno-sanitize=null: Eigen's own product kernels bind a reference to element 0 of an empty temporary (PlainObjectBase::coeffRef),
# a report inside Eigen, not in the code under test; a real null dereference is still trapped by AddressSanitizer (SEGV)
ASAN   := -O1 -g -fsanitize=address,undefined -fno-sanitize=null -fno-sanitize-recover=undefined -fno-omit-frame-pointer
TSAN   := -O1 -g -fsanitize=thread
LIBS   := -lpthread

B := build

.PHONY: all clean
SRCS := $(wildcard harness/*.cpp)
NAMES := $(patsubst harness/%.cpp,%,$(SRCS))

# default flavour list per harness is given in ./check; `make all` builds what ./check --list-targets prints
all:
	@$(MAKE) --no-print-directory $$(./check --list-targets)

# Orthogonalization.h (Davidson) guards its preconditions with the C assert macro, which aborts the whole process.
# These harnesses build the library the way a release build does (-DNDEBUG; Eigen's index assertions stay on through
# the eigen_assert override in engine/common.h) so that a tripped precondition shows up as its consequence
# (sanitizer report, exception, wrong result) attributed to one case instead of killing the run.
$(B)/c12_args.% $(B)/c15_davidson.% $(B)/c04_select.%: COMMON += -DNDEBUG

# the same E1 harness sources instantiated for float / long double (thorough tiers)
$(B)/%_float.plain: harness/%.cpp | $(B)
	$(CXX) $(COMMON) $(PLAIN) -DVF_SCALAR=float -MF $@.d -o $@ $< $(LIBS)

$(B)/%_ld.plain: harness/%.cpp | $(B)
	$(CXX) $(COMMON) $(PLAIN) '-DVF_SCALAR=long double' -MF $@.d -o $@ $< $(LIBS)

$(B)/%.plain: harness/%.cpp | $(B)
	$(CXX) $(COMMON) $(PLAIN) -MF $@.d -o $@ $< $(LIBS)

$(B)/%.asan: harness/%.cpp | $(B)
	$(CXX) $(COMMON) $(ASAN) -DVF_ASAN -MF $@.d -o $@ $< $(LIBS)

$(B)/%.tsan: harness/%.cpp | $(B)
	$(CXX) $(COMMON) $(TSAN) -DVF_TSAN -MF $@.d -o $@ $< $(LIBS)

$(B):
	mkdir -p $(B) $(B)/out

clean:
	rm -rf $(B)

-include $(wildcard $(B)/*.d)

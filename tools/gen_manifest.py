#!/usr/bin/env python3
"""Regenerates MANIFEST.json from tools/manifest_src.json + which harnesses exist; validates against the schema."""
import json, os, subprocess, sys
ROOT = os.path.dirname(os.path.dirname(os.path.abspath(__file__)))
src = json.load(open(os.path.join(ROOT, "tools", "manifest_src.json")))
reg = subprocess.run([os.path.join(ROOT, "check"), "--list-targets"], capture_output=True, text=True).stdout
props = [json.loads(l) for l in open(os.path.join(ROOT, "properties.jsonl"))]
checks, na = [], []
import importlib.machinery, importlib.util
loader = importlib.machinery.SourceFileLoader("checkmod", os.path.join(ROOT, "check"))
spec = importlib.util.spec_from_loader("checkmod", loader)
mod = importlib.util.module_from_spec(spec); loader.exec_module(mod)
registered = mod.registered()
for p in props:
    pid = p["id"]
    meta = src["checks"].get(pid)
    if pid in registered and meta and meta.get("claimed", True):
        lvl = registered[pid][0]
        c = dict(property_id=pid,
                 quick_cmd="./check %s quick" % pid,
                 thorough_cmd="./check %s thorough" % pid,
                 evidence_file="/verif/evidence/%s.json" % pid,
                 replay_cmd_template="./check --replay {path}",
                 engine=meta["engine"],
                 level_claimed=dict(category=lvl, text=meta["text"], design_ref=meta["design_ref"]),
                 level_note=meta["note"],
                 technique=meta["technique"])
        checks.append(c)
    else:
        na.append(dict(property_id=pid, reason=(meta or {}).get("na_reason", "check not built yet in this session; see DESIGN.md section 4 for the plan")))
man = dict(version=1, setup_cmd=src["setup_cmd"], hooks=src["hooks"], engines=src["engines"], checks=checks,
           notes=src["notes"], not_applicable=na)
json.dump(man, open(os.path.join(ROOT, "MANIFEST.json"), "w"), indent=1)
try:
    import jsonschema
    jsonschema.validate(man, json.load(open("/root/.vp/MANIFEST.schema.json")))
    print("MANIFEST.json valid: %d checks, %d not_applicable" % (len(checks), len(na)))
except ImportError:
    print("jsonschema not importable with this python; run with python3-vt")

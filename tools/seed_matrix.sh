#!/bin/bash
# usage: tools/seed_matrix.sh [seed ...]   - runs every seeded change (or the listed ones) against the quick check of its
# property (plus the extra checks listed below), records detected/missed in seeded/RESULTS.tsv. /repo is restored after each.
cd /verif || exit 2
declare -A EXTRA=( [C03a]="C11" [C04a]="C05 C06" [C03c]="C05" [C16d]="C01 C05" )
seeds="$@"; [ -z "$seeds" ] && seeds=$(ls seeded | grep -E '^C[0-9]+[a-z]$')
for s in $seeds; do
  p=${s:0:3}
  for chk in $p ${EXTRA[$s]}; do
    out=$(tools/try_seed.sh /verif/seeded/$s/patch.diff $chk quick 2>&1)
    rc=$(echo "$out" | grep -o 'exit=[0-9]*' | tail -1 | cut -d= -f2)
    first=$(echo "$out" | grep -m1 -A1 '^VIOLATION' | tail -1 | cut -c1-260 | tr '\t' ' ')
    verdict=missed; [ "$rc" = "1" ] && verdict=detected; [ "$rc" != "0" ] && [ "$rc" != "1" ] && verdict="error(rc=$rc)"
    printf "%s\t%s\t%s\t%s\n" "$s" "$chk" "$verdict" "$first" >> seeded/RESULTS.tsv.new
    echo "$s $chk $verdict"
  done
done
# merge with earlier results: the latest verdict per (seed, check) wins
touch seeded/RESULTS.tsv
cat seeded/RESULTS.tsv seeded/RESULTS.tsv.new | python3 -c "
import sys
d={}
for l in sys.stdin:
    p=l.rstrip('\n').split('\t')
    if len(p)>=3: d[(p[0],p[1])]=l
for k in sorted(d): sys.stdout.write(d[k])
" > seeded/RESULTS.tsv.merged && mv seeded/RESULTS.tsv.merged seeded/RESULTS.tsv && rm -f seeded/RESULTS.tsv.new

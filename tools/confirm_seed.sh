#!/bin/bash
# usage: tools/confirm_seed.sh <seed id, e.g. C10a> <worktree>
# Independently confirms a seeded change in a scratch worktree of /repo (never in /repo itself):
#   demo passes on the original tree, fails with the patch; the repository's test-suite still builds and passes with the patch.
# On success copies patch.diff + demo.cpp into /verif/seeded/<id>/ and writes meta.json.
id=$1; wt=$2; src=/tmp/seed_out/$id; out=/verif/seeded/$id
log=/tmp/seed_out/confirm_$id.log
exec > $log 2>&1
cd $wt || exit 2
git checkout -q -- . ; git status --short | grep -v '^??'
[ -d _b ] || cmake -G Ninja -S . -B _b -DBUILD_TESTS=ON -DCMAKE_BUILD_TYPE=RelWithDebInfo -DCMAKE_CXX_FLAGS=-Wno-error >/dev/null
g++ -std=c++17 -O2 -I$wt/include -I/usr/include/eigen3 $src/demo.cpp -o /tmp/seed_out/demo_$id.orig -lpthread || { echo "DEMO DOES NOT COMPILE (orig)"; exit 3; }
/tmp/seed_out/demo_$id.orig > /tmp/seed_out/demo_$id.orig.out 2>&1; rc_orig=$?
git apply $src/patch.diff || { echo "PATCH DOES NOT APPLY"; exit 3; }
g++ -std=c++17 -O2 -I$wt/include -I/usr/include/eigen3 $src/demo.cpp -o /tmp/seed_out/demo_$id.mut -lpthread || { echo "DEMO DOES NOT COMPILE (patched)"; git checkout -q -- .; exit 3; }
/tmp/seed_out/demo_$id.mut > /tmp/seed_out/demo_$id.mut.out 2>&1; rc_mut=$?
/tmp/seed_out/demo_$id.mut > /dev/null 2>&1; rc_mut2=$?
cmake --build _b -j8 > /tmp/seed_out/build_$id.log 2>&1; rc_build=$?
ctest --test-dir _b -j8 --timeout 900 > /tmp/seed_out/ctest_$id.log 2>&1; rc_ctest=$?
summary=$(grep -E "tests passed|tests failed" /tmp/seed_out/ctest_$id.log | tail -1)
git checkout -q -- .
cmake --build _b -j8 > /dev/null 2>&1   # leave the build tree at the original sources
echo "id=$id demo_orig=$rc_orig demo_mut=$rc_mut/$rc_mut2 build=$rc_build ctest=$rc_ctest :: $summary"
if [ $rc_orig -eq 0 ] && [ $rc_mut -ne 0 ] && [ $rc_mut2 -ne 0 ] && [ $rc_build -eq 0 ] && [ $rc_ctest -eq 0 ]; then
  mkdir -p $out; cp $src/patch.diff $src/demo.cpp $out/
  python3 - "$id" "$src" "$out" "$summary" "$rc_mut" "$(git -C $wt rev-parse --short HEAD)" <<'PY'
import json,sys,os
id,src,out,summary,rc,base=sys.argv[1:7]
m={}
try: m=json.load(open(os.path.join(src,'meta.json')))
except Exception as e: m={}
meta=dict(seed=id, property=id[:3], summary=m.get('summary',''), needs_to_manifest=m.get('needs_to_manifest',''),
  files_changed=m.get('files_changed',[]), origin="independent sub-agent given only the property record and a scratch worktree",
  confirmed_by_me=dict(worktree="scratch git worktree of /repo under /tmp (removed afterwards)",
    commands=["g++ -std=c++17 -O2 -I<wt>/include -I/usr/include/eigen3 demo.cpp && ./demo   (original tree)",
              "git apply patch.diff; same demo build+run twice (patched tree)",
              "cmake --build _b -j8 && ctest --test-dir _b -j8 --timeout 900   (patched tree, tests unedited)"],
    demo_original_exit=0, demo_patched_exit=int(rc), test_suite_with_patch=summary.strip()),
  base_commit=base)
json.dump(meta,open(os.path.join(out,'meta.json'),'w'),indent=1)
PY
  echo CONFIRMED
else
  echo REJECTED
fi

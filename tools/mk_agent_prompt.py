#!/usr/bin/env python3
# Prints the prompt handed to an independent mutation sub-agent for one property.
# The agent receives only the property record and a scratch worktree; nothing from /verif.
import json, sys
pid, wt = sys.argv[1], sys.argv[2]
extra = sys.argv[3] if len(sys.argv) > 3 else ""
suf = sys.argv[4] if len(sys.argv) > 4 else "ab"
sa, sb = suf[0], suf[1]
prop = None
for l in open('/verif/properties.jsonl'):
    p = json.loads(l)
    if p['id'] == pid:
        prop = p
text = json.dumps({k: prop[k] for k in ('id', 'title', 'statement', 'quantifier', 'why_tests_cant', 'anchors')}, indent=1)
print(f"""You are helping to evaluate a verification effort for the C++ header-only eigenvalue library yixuan/spectra (built on Eigen).
Work ONLY inside the scratch git worktree {wt} (already created for you: a checkout of the pinned commit of the library). Never edit /repo, and do not read or touch /verif at all.

Here is one semantic property of the library that is supposed to hold:

{text}

YOUR TASK: produce TWO independent source changes ("{sa}" and "{sb}", different mechanisms / different code sites) to the library under {wt}/include/Spectra that each BREAK this property while
 (1) the library and its test-suite still compile,
 (2) the repository's existing test-suite (365 Catch test cases in 28 binaries) still passes completely, unedited, and
 (3) the breakage needs something specific to manifest - a particular multi-step sequence of operations on one object, an unusual but legal input or configuration corner, a fault at a particular point, a particular thread interleaving, or two cooperating code sites that each look fine alone - NOT something that ordinary use (the README examples, the test-suite's style of usage) exposes at once.
The changes must be realistic: the kind of defect a maintainer could plausibly introduce in a refactoring, optimisation or small feature patch, and that would survive code review at a glance. No gross breakage, no #ifdef tricks, no special-casing of magic input values or sizes (no "if (n == 7)"), no dead code; keep each change small (a few lines). Do not change the tests. {extra}

For each of the two changes deliver, in /tmp/seed_out/{pid}{sa}/ and /tmp/seed_out/{pid}{sb}/ :
  patch.diff   - `git diff` of the change relative to the worktree HEAD (must apply with `git apply` at the repo root)
  demo.cpp     - a small standalone demonstration program (only the library headers + Eigen; compile with
                 `g++ -std=c++17 -O2 -I{wt}/include -I/usr/include/eigen3 demo.cpp -o demo -lpthread`) that exits 0 and prints OK on the ORIGINAL tree
                 and exits non-zero, printing what is wrong, with the patch applied. It must check the property itself (an independent oracle,
                 e.g. residuals computed from the matrix), not internals.
  meta.json    - {{"property": "{pid}", "summary": "...", "needs_to_manifest": "...", "files_changed": [...], "commands_run": [...], "test_suite": "365/365 passed" or what happened, "demo_without_patch": "exit 0", "demo_with_patch": "exit N + message"}}

You must actually verify everything yourself, in the worktree:
  configure+build the tests once:   cd {wt} && cmake -G Ninja -S . -B _b -DBUILD_TESTS=ON -DCMAKE_BUILD_TYPE=RelWithDebInfo -DCMAKE_CXX_FLAGS=-Wno-error >/dev/null && cmake --build _b -j8
  run them:                          ctest --test-dir {wt}/_b -j8 --timeout 900      (takes ~4 min; all 28 binaries must pass)
  With each patch applied: rebuild (ninja only rebuilds what changed), run the full ctest, and run the demo; then revert (`git checkout -- .`) before the next patch.
If a candidate change makes any existing test fail, discard it and find another. If the demo does not fail reliably (every run) with the patch, or fails without it, fix it.
The sandbox has no network. Eigen is at /usr/include/eigen3. Keep other machine load modest (use -j8).
When done: make sure the worktree has no uncommitted source changes left (`git -C {wt} checkout -- .`), leave the _b build directory in place, and reply with a short report (what each change is, what it needs to manifest, test-suite result, demo results). If you could only produce one valid change, deliver that one and say so.""")

#!/bin/bash
# usage: tools/try_seed.sh <patch.diff> <prop> [tier]   - apply a seeded change to /repo, run the check, revert
set -u
patch=$1; prop=$2; tier=${3:-quick}
cd /repo || exit 2
if ! git diff --quiet HEAD -- include; then echo "REPO DIRTY - refusing"; exit 2; fi
if ! git apply --check "$patch" 2>/dev/null; then
  if git apply --3way --check "$patch" 2>/dev/null; then :; else echo "PATCH DOES NOT APPLY: $patch"; exit 3; fi
fi
git apply "$patch" 2>/dev/null || { git apply --3way "$patch" && git reset -q; } || exit 3
git diff --stat | tail -1
# the evidence file describes the unchanged tree: keep it across the run on the patched tree
cp -f /verif/evidence/$prop.json /tmp/try_seed_evidence_$prop.json 2>/dev/null
cd /verif && ./check "$prop" "$tier" > /tmp/try_seed_$prop.log 2>&1; rc=$?
[ -f /tmp/try_seed_evidence_$prop.json ] && mv -f /tmp/try_seed_evidence_$prop.json /verif/evidence/$prop.json
grep -c '^VIOLATION' /tmp/try_seed_$prop.log | sed "s/^/violation lines: /"
grep -m3 -A1 '^VIOLATION' /tmp/try_seed_$prop.log | cut -c1-400
tail -1 /tmp/try_seed_$prop.log
cd /repo && git reset -q && git checkout -- . && git status --short | grep -v _build
echo "exit=$rc"
